"""Engine R - scalar replacement of private aggregates (part of the MIR normal form).

A maintainer can group related values in a small private struct - two cursors in a `Cursor`, a last-winner index in a `Turn` with
`start_index()` / `served()` methods - without changing behaviour.  Rules that follow *one value* (the start index of a select, a cursor)
then meet a struct-typed local that is initialised by `Default::default()`, copied whole into the `self` of an inlined method and updated
through a `&mut` of one of its fields; a value tracer that looks for assignments to a local sees none of that.

The pass rewrites a body so that every leaf field of such a local is a local of its own:

  1. deref forwarding: `r = &mut L.f; .. (*r).g = x` becomes `L.f.g = x` (r has one definition, `&[mut]` of a place made of field
     projections of a local; copies `r2 = move r` are followed); a reference all of whose uses were forwarded is removed;
  2. `L = <S as Default>::default()` for a struct S of the crate whose Default impl builds `S { f: Default::default(), .. }` becomes the
     aggregate of the field defaults (None for Option, false, 0, nested structs recursively);
  3. whole-struct copies and aggregates are expanded field by field (`X = copy L.f` -> `X.g = copy L.f.g` for every leaf g; `L = S { a, b }` ->
     `L.0 = a; L.1 = b`) - valid for any struct, whether or not it is replaced afterwards;
  4. a local of struct type that after 1-3 occurs only with a projection down to a leaf (never whole, never as a call argument or destination,
     address not taken) is replaced: each leaf gets a fresh local named `<local>.<field>..` (user-visible if the struct local was).

Everything else is left as it is; the result is ordinary MIR facts.  Only structs defined in the analysed crate are touched.
"""
import copy

MAX_NEW_LOCALS = 64


def _is_place(x):
    return isinstance(x, dict) and 'l' in x and 's' in x


def _fields_only(pr):
    return all(isinstance(e, dict) and 'f' in e and 'dc' not in e for e in pr)


def _strip(x):
    if isinstance(x, dict):
        x.pop('@', None)
        x.pop('@i', None)
        for v in x.values():
            _strip(v)
    elif isinstance(x, list):
        for v in x:
            _strip(v)
    return x


def _show(l, pr):
    s = '_%d' % l
    for e in pr:
        if e == '*':
            s = '(*%s)' % s
        elif isinstance(e, dict) and 'f' in e:
            s = '%s.%s' % (s, e.get('name', e['f']))
        elif isinstance(e, dict) and 'dc' in e:
            s = '(%s as %s)' % (s, e['dc'])
        else:
            s = '%s[..]' % s
    return s


class _Sroa:
    def __init__(self, d, crate):
        self.d = d
        self.crate = crate
        self.adts = getattr(crate, 'adts', None) or {}
        self.blocks = copy.deepcopy(d['blocks'])
        _strip(self.blocks)
        self.locals = [dict(l) if isinstance(l, dict) else l for l in d['locals']]
        self.changed = False

    # ---- types
    def struct_of(self, ty):
        a = self.adts.get((ty or '').strip())
        if a and a.get('kind') == 'Struct' and len(a.get('variants') or []) == 1 and not (ty or '').startswith(('std::', 'core::', 'alloc::')):
            return a
        return None

    def leaves(self, ty, depth=0):
        """list of leaf paths under a struct type: each a list of projection elements"""
        a = self.struct_of(ty)
        if a is None or depth > 3:
            return None
        out = []
        for i, f in enumerate(a['variants'][0].get('fields') or []):
            el = {'f': i, 'name': f.get('name', str(i)), 'adt': a.get('path'), 'ty': f.get('ty')}
            sub = self.leaves(f.get('ty'), depth + 1)
            if sub is None:
                out.append([el])
            else:
                out.extend([[el] + p for p in sub])
        return out

    def local_ty(self, l):
        e = self.locals[l] if 0 <= l < len(self.locals) else None
        return (e or {}).get('ty') if isinstance(e, dict) else None

    # ---- traversal
    def places(self):
        """yield (block, stmt index or 'term', container dict, key, role) for every place"""
        for b, bl in enumerate(self.blocks):
            for i, s in enumerate(bl['stmts']):
                if s.get('k') == 'assign':
                    yield b, i, s, 'place', 'dest'
                    for x in self._rv_places(s['rv']):
                        yield (b, i) + x
                elif _is_place(s.get('place')):
                    yield b, i, s, 'place', 'storage'
            t = bl['term']
            for x in self._term_places(t):
                yield (b, 'term') + x

    def _rv_places(self, rv):
        k = rv.get('k')
        if k in ('ref', 'rawptr') and _is_place(rv.get('place')):
            yield rv, 'place', 'ref'
        elif k == 'discr' and _is_place(rv.get('place')):
            yield rv, 'place', 'read'
        elif _is_place(rv.get('place')):
            yield rv, 'place', 'read'
        for kk in ('op', 'a', 'b'):
            o = rv.get(kk)
            if isinstance(o, dict) and _is_place(o.get('place')):
                yield o, 'place', 'operand'
        for o in rv.get('ops') or []:
            if isinstance(o, dict) and _is_place(o.get('place')):
                yield o, 'place', 'operand'

    def _term_places(self, t):
        k = t.get('k')
        if k == 'call':
            if _is_place(t.get('dest')):
                yield t, 'dest', 'calldest'
            for a in t.get('args') or []:
                if isinstance(a, dict) and _is_place(a.get('place')):
                    yield a, 'place', 'callarg'
            ind = (t.get('callee') or {}).get('indirect')
            if isinstance(ind, dict) and _is_place(ind.get('place')):
                yield ind, 'place', 'callarg'
        elif k == 'switch':
            o = t.get('op')
            if isinstance(o, dict) and _is_place(o.get('place')):
                yield o, 'place', 'operand'
        elif k == 'drop':
            if _is_place(t.get('place')):
                yield t, 'place', 'drop'
        elif k == 'yield':
            o = t.get('value')
            if isinstance(o, dict) and _is_place(o.get('place')):
                yield o, 'place', 'callarg'
            if _is_place(t.get('resume_arg')):
                yield t, 'resume_arg', 'calldest'
        elif k == 'assert':
            for kk in ('cond', 'a', 'b'):
                o = t.get(kk)
                if isinstance(o, dict) and _is_place(o.get('place')):
                    yield o, 'place', 'operand'

    # ---- 1. deref forwarding
    def forward_derefs(self):
        defs = {}
        for b, bl in enumerate(self.blocks):
            for i, s in enumerate(bl['stmts']):
                if s.get('k') == 'assign' and not s['place'].get('p'):
                    defs.setdefault(s['place']['l'], []).append((b, i, s))
            t = bl['term']
            if t.get('k') == 'call' and _is_place(t.get('dest')):
                defs.setdefault(t['dest']['l'], []).append((b, 'term', None))
            if t.get('k') == 'yield' and _is_place(t.get('resume_arg')):
                defs.setdefault(t['resume_arg']['l'], []).append((b, 'term', None))
        nargs = self.d.get('arg_count', 0)
        target = {}

        def resolve(r, depth=0):
            if r in target:
                return target[r]
            if depth > 6 or r <= nargs:
                return None
            ds = defs.get(r, [])
            if len(ds) != 1 or ds[0][2] is None:
                return None
            rv = ds[0][2]['rv']
            if rv['k'] in ('ref',) and _is_place(rv.get('place')):
                p = rv['place']
                pr = p.get('p') or []
                if _fields_only(pr) and self.struct_of(self.local_ty(p['l'])) is not None:
                    target[r] = (p['l'], list(pr), p.get('ty'))
                    return target[r]
                if pr[:1] == ['*'] and _fields_only(pr[1:]):
                    base = resolve(p['l'], depth + 1)
                    if base is not None:
                        target[r] = (base[0], base[1] + list(pr[1:]), p.get('ty'))
                        return target[r]
                return None
            if rv['k'] == 'use' and isinstance(rv.get('op'), dict) and rv['op'].get('k') in ('move', 'copy') and _is_place(rv['op'].get('place')) and not rv['op']['place'].get('p'):
                t_ = resolve(rv['op']['place']['l'], depth + 1)
                if t_ is not None:
                    target[r] = t_
                return t_
            return None
        cands = [r for r in defs if resolve(r) is not None]
        if not cands:
            return
        # uses
        plain_use = {}
        for b, i, c, key, role in self.places():
            p = c[key]
            if p['l'] in target and not p.get('p') and role != 'dest' and role != 'storage':
                plain_use.setdefault(p['l'], []).append((b, i, c, role))
        escaped_refs = set()
        for r, uses in plain_use.items():
            for b, i, c, role in uses:
                ok = False
                if role == 'operand' and i != 'term':
                    s = self.blocks[b]['stmts'][i]
                    if s.get('k') == 'assign' and s['rv'].get('k') == 'use' and s['rv'].get('op') is c and not s['place'].get('p') and s['place']['l'] in target:
                        ok = True
                if not ok:
                    escaped_refs.add(r)
        # a copy of an escaped reference escapes too (conservatively: the original)
        self.escaped_locals = {target[r][0] for r in escaped_refs}
        for b, i, c, key, role in list(self.places()):
            p = c[key]
            if p['l'] in target and (p.get('p') or [])[:1] == ['*']:
                L, pre, _ty = target[p['l']]
                np_ = {'l': L, 'p': copy.deepcopy(pre) + copy.deepcopy(p['p'][1:]), 'ty': p.get('ty')}
                np_['s'] = _show(L, np_['p'])
                if not np_['p']:
                    np_.pop('p')
                c[key] = np_
                self.changed = True
        # remove forwarded references without remaining uses (a copy `r2 = move r` is a use of r: iterate)
        progress = True
        while progress:
            progress = False
            uses = {}
            for b2, i2, c2, key2, role2 in self.places():
                if role2 not in ('dest', 'storage'):
                    uses[c2[key2]['l']] = uses.get(c2[key2]['l'], 0) + 1
            for bl in self.blocks:
                keep = []
                for s_ in bl['stmts']:
                    if s_.get('k') == 'assign' and not s_['place'].get('p') and s_['place']['l'] in target and s_['place']['l'] not in escaped_refs and \
                            not uses.get(s_['place']['l']):
                        progress = True
                        self.changed = True
                        continue
                    keep.append(s_)
                bl['stmts'] = keep

    # ---- 2. derived Default
    def default_value(self, ty, depth=0):
        """operand / aggregate description of <ty as Default>::default(), or None"""
        t = (ty or '').strip()
        if t.startswith(('std::option::Option<', 'core::option::Option<')):
            return {'k': 'aggr', 'kind': 'adt', 'adt': 'std::option::Option', 'variant': 'None', 'fields': [], 'ops': []}
        if t == 'bool':
            return {'k': 'use', 'op': {'k': 'const', 'ty': 'bool', 'val': False, 's': 'const false'}}
        if t in ('usize', 'u8', 'u16', 'u32', 'u64', 'u128', 'isize', 'i8', 'i16', 'i32', 'i64', 'i128'):
            return {'k': 'use', 'op': {'k': 'const', 'ty': t, 'val': 0, 's': 'const 0_%s' % t}}
        return None

    def derived_default(self, ty):
        a = self.struct_of(ty)
        if a is None:
            return False
        for b in getattr(self.crate, 'raw_bodies', None) or getattr(self.crate, 'bodies', []):
            if b.name == 'default' and 'Default' in (b.impl_trait or '') and (b.impl_self or '').strip() == ty.strip():
                aggr = [s for bb, i, s in b.iter_assigns() if s['rv']['k'] == 'aggr' and (s['rv'].get('adt') or '').strip() == ty.strip() and s['place']['l'] == 0]
                calls = [t for bb, t in b.iter_terms('call')]
                return len(aggr) == 1 and all(t['callee'].get('name') == 'default' for t in calls)
        return False

    def expand_defaults(self):
        for bl in self.blocks:
            t = bl['term']
            if t.get('k') != 'call' or (t.get('callee') or {}).get('name') != 'default' or 'Default' not in ((t['callee'].get('trait') or '') + (t['callee'].get('def') or '')):
                continue
            d = t.get('dest')
            if not _is_place(d) or t.get('args'):
                continue
            ty = d.get('ty')
            lv = self.leaves(ty)
            if not lv or not self.derived_default(ty) or t.get('t') is None:
                continue
            stmts = []
            ok = True
            for path in lv:
                # every struct on the way down must have the derived impl as well
                for e in path[:-1]:
                    if not self.derived_default(e['ty']):
                        ok = False
                dv = self.default_value(path[-1]['ty'])
                if dv is None:
                    ok = False
                    break
                pl = {'l': d['l'], 'p': (d.get('p') or []) + copy.deepcopy(path), 'ty': path[-1]['ty']}
                pl['s'] = _show(pl['l'], pl['p'])
                stmts.append({'k': 'assign', 'place': pl, 'rv': dv, 'line': t.get('line'), 'glue': 'sroa-default'})
            if not ok:
                continue
            bl['stmts'] = bl['stmts'] + stmts
            bl['term'] = {'k': 'goto', 't': t['t'], 'line': t.get('line'), 'glue': 'sroa-default'}
            self.changed = True

    # ---- 3. whole-struct copies / aggregates, field by field
    def expand_whole(self):
        progress = True
        rounds = 0
        while progress and rounds < 4:
            progress = False
            rounds += 1
            for bl in self.blocks:
                out = []
                for s in bl['stmts']:
                    if s.get('k') != 'assign':
                        out.append(s)
                        continue
                    dty = s['place'].get('ty')
                    lv = self.leaves(dty)
                    rv = s['rv']
                    if lv and rv['k'] == 'use' and isinstance(rv.get('op'), dict) and rv['op'].get('k') in ('copy', 'move') and _is_place(rv['op'].get('place')) and \
                            '*' not in (rv['op']['place'].get('p') or []) and '*' not in (s['place'].get('p') or []):
                        src = rv['op']['place']
                        for path in lv:
                            dp = {'l': s['place']['l'], 'p': (s['place'].get('p') or []) + copy.deepcopy(path), 'ty': path[-1]['ty']}
                            dp['s'] = _show(dp['l'], dp['p'])
                            sp = {'l': src['l'], 'p': (src.get('p') or []) + copy.deepcopy(path), 'ty': path[-1]['ty']}
                            sp['s'] = _show(sp['l'], sp['p'])
                            out.append({'k': 'assign', 'place': dp, 'rv': {'k': 'use', 'op': {'k': rv['op']['k'], 'place': sp}}, 'line': s.get('line'), 'glue': 'sroa-copy'})
                        progress = True
                        self.changed = True
                        continue
                    a = self.struct_of(dty)
                    if a is not None and rv['k'] == 'aggr' and rv.get('kind') == 'adt' and (rv.get('adt') or '').strip() == (a.get('path') or dty).strip() and \
                            '*' not in (s['place'].get('p') or []):
                        fs = a['variants'][0].get('fields') or []
                        ops = rv.get('ops') or []
                        names = rv.get('fields') or [f.get('name') for f in fs]
                        if len(ops) == len(fs):
                            for i, o in enumerate(ops):
                                fname = names[i] if i < len(names) else fs[i].get('name')
                                idx = [f.get('name') for f in fs].index(fname) if fname in [f.get('name') for f in fs] else i
                                el = {'f': idx, 'name': fs[idx].get('name', str(idx)), 'adt': a.get('path'), 'ty': fs[idx].get('ty')}
                                dp = {'l': s['place']['l'], 'p': (s['place'].get('p') or []) + [el], 'ty': fs[idx].get('ty')}
                                dp['s'] = _show(dp['l'], dp['p'])
                                out.append({'k': 'assign', 'place': dp, 'rv': {'k': 'use', 'op': copy.deepcopy(o)}, 'line': s.get('line'), 'glue': 'sroa-aggr'})
                            progress = True
                            self.changed = True
                            continue
                    out.append(s)
                bl['stmts'] = out

    # ---- 4. replacement
    def replace(self):
        nargs = self.d.get('arg_count', 0)
        cand = {}
        for l, e in enumerate(self.locals):
            if not isinstance(e, dict) or l == 0 or l <= nargs:
                continue
            lv = self.leaves(e.get('ty'))
            if lv and l not in getattr(self, 'escaped_locals', set()):
                cand[l] = lv
        if not cand:
            return
        bad = set()
        for b, i, c, key, role in self.places():
            p = c[key]
            l = p['l']
            if l not in cand:
                continue
            if role == 'storage':
                continue
            pr = p.get('p') or []
            hit = any(len(pr) >= len(path) and all(isinstance(pr[j], dict) and pr[j].get('f') == path[j]['f'] and 'dc' not in pr[j] for j in range(len(path))) for path in cand[l])
            if not hit or role in ('ref',) and False:
                bad.add(l)
            if role == 'ref':
                bad.add(l)              # address of (a part of) the local is still taken
        good = {l: v for l, v in cand.items() if l not in bad}
        if not good or sum(len(v) for v in good.values()) > MAX_NEW_LOCALS:
            return
        newid = {}
        for l, lv in good.items():
            base = self.locals[l]
            for path in lv:
                nid = len(self.locals)
                nm = (base.get('name') + '.' + '.'.join(e['name'] for e in path)) if base.get('name') else None
                ent = {'i': nid, 'ty': path[-1]['ty'], 'name': nm, 'user': bool(base.get('user')) and nm is not None, 'sroa_of': l}
                for k in ('mut',):
                    if k in base:
                        ent[k] = base[k]
                self.locals.append(ent)
                newid[(l, tuple(e['f'] for e in path))] = nid
        for b, i, c, key, role in list(self.places()):
            p = c[key]
            l = p['l']
            if l not in good or role == 'storage':
                continue
            pr = p.get('p') or []
            for path in good[l]:
                n = len(path)
                if len(pr) >= n and all(isinstance(pr[j], dict) and pr[j].get('f') == path[j]['f'] for j in range(n)):
                    nid = newid[(l, tuple(e['f'] for e in path))]
                    np_ = {'l': nid, 'ty': p.get('ty')}
                    rest = pr[n:]
                    if rest:
                        np_['p'] = rest
                    np_['s'] = _show(nid, rest)
                    c[key] = np_
                    self.changed = True
                    break

    def run(self):
        self.escaped_locals = set()
        self.forward_derefs()
        self.expand_defaults()
        self.expand_whole()
        self.replace()
        if not self.changed:
            return None
        d2 = dict(self.d)
        d2['blocks'] = self.blocks
        d2['locals'] = self.locals
        d2['sroa'] = True
        return d2


def sroa(d, crate):
    """returns the rewritten body dict, or d itself when nothing applies"""
    if d.get('in_test') or not d.get('blocks'):
        return d
    adts = getattr(crate, 'adts', None) or {}
    tys = {(l.get('ty') or '').strip().lstrip('&').replace('mut ', '').strip() for l in d.get('locals') or [] if isinstance(l, dict)}
    if not any((a := adts.get(t)) and a.get('kind') == 'Struct' and not t.startswith(('std::', 'core::', 'alloc::')) for t in tys):
        return d
    try:
        out = _Sroa(d, crate).run()
    except (RecursionError, KeyError, IndexError, TypeError):
        return d
    return out or d
