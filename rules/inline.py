"""MIR normalisation: private synchronous helper functions are inlined into their callers.

A maintainer can move a few statements of an analysed function into a private helper (or pull a helper back into its
caller) without changing behaviour.  Rules that look at one function body at a time would see two different programs.  The
normal form removes that degree of freedom: every direct call from non-test code of the crate to a *private, synchronous,
non-recursive, non-trait* function of the same crate is replaced by the callee's blocks (arguments become assignments to the
callee's parameter locals, `return` becomes an assignment of the callee's `_0` to the call's destination and a jump to the
call's target).  A helper all of whose uses were inlined disappears from the list of bodies the rules iterate over (its
code is now analysed in the context of each caller); public functions and functions used as values stay.

The result is still plain MIR facts (same JSON shape), so every engine works on it unchanged.  The original bodies stay
available as crate.raw_bodies.
"""
import re, copy, os

MAX_DEPTH = 4
MAX_BLOCKS = 4000
SMALL_HELPER_BLOCKS = 8
SROA_EXCLUDE = ('idl::', 'json_ser::', '<idl::', '<json_ser::')
SPLIT_EXCLUDE = ('idl::', 'json_ser::', '<idl::', '<json_ser::',     # engines L, M and J anchor on the functions as written
                 'server::')                                        # the server rules explore paths with facts themselves (engine B')


def _relabel(x, lo, bo):
    """deep copy of a MIR fact fragment with locals shifted by lo and block ids by bo"""
    if isinstance(x, list):
        return [_relabel(y, lo, bo) for y in x]
    if not isinstance(x, dict):
        return x
    out = {}
    is_term = 'k' in x and x.get('k') in ('goto', 'switch', 'drop', 'call', 'assert', 'yield', 'falseedge')
    for k, v in x.items():
        if k in ('@', '@i'):
            continue                        # use-site annotations of the source body: recomputed for the new body (Body._annotate)
        if k == 'l' and isinstance(v, int):
            out[k] = v + lo
        elif k == 'idx' and isinstance(v, int):
            out[k] = v + lo
        elif k == 's' and isinstance(v, str) and 'l' in x:
            out[k] = re.sub(r'_(\d+)\b', lambda m: '_%d' % (int(m.group(1)) + lo), v)
        elif is_term and k in ('t', 'otherwise', 'drop', 'imag') and isinstance(v, int):
            out[k] = v + bo
        elif is_term and k == 'arms':
            out[k] = [[a[0], a[1] + bo] for a in v]
        else:
            out[k] = _relabel(v, lo, bo)
    return out


def _fresh(x):
    """deep copy of a block that is going to live under another block id: use-site annotations are dropped (recomputed by Body._annotate)"""
    return _relabel(x, 0, 0)


def _plain_fn(b):
    return b.kind in ('Fn', 'AssocFn') and not b.is_coroutine and not b.in_test and b.d.get('impl_trait') is None and b.d.get('in_trait') is None


def _is_async_shell(b):
    """the outer function of an `async fn` only builds the coroutine"""
    rt = b.d.get('ret_ty') or ''
    return 'coroutine' in rt.lower() or rt.startswith('impl ') or '{async' in rt


def callee_path(t):
    c = t.get('callee') or {}
    if not c.get('local'):
        return None
    return c.get('resolved') or c.get('def')


def helper_candidates(crate):
    """private plain functions of the crate that are only ever *called* (never used as a value) from non-test code"""
    by_path = {}
    for b in crate.raw_bodies:
        by_path.setdefault(b.path, b)
    cands = {}
    for b in crate.raw_bodies:
        if _plain_fn(b) and b.d.get('vis') == 'restricted' and not _is_async_shell(b) and b.mac is None:
            cands[b.path] = b
    # call graph + value uses
    calls = {}
    valued = set()
    for b in crate.raw_bodies:
        for blk in b.blocks:
            t = blk['term']
            if t['k'] == 'call':
                p = callee_path(t)
                if p in cands and not b.in_test:
                    calls.setdefault(b.path, set()).add(p)
        # fn items used as values: constants of FnDef type mentioned in operands (not as callee)
        txt = None
        for blk in b.blocks:
            for s in blk['stmts']:
                if s.get('k') == 'assign':
                    rv = s['rv']
                    for op in _ops(rv):
                        d = op.get('def') if op.get('k') == 'const' else None
                        if d in cands and 'fn' in (op.get('ty') or '').lower():
                            valued.add(d)
            t = blk['term']
            if t['k'] == 'call':
                for op in t.get('args') or []:
                    d = op.get('def') if op.get('k') == 'const' else None
                    if d in cands:
                        valued.add(d)
    # recursion: drop every candidate on a cycle
    def reach(p, seen):
        for q in calls.get(p, ()):
            if q not in seen:
                seen.add(q)
                reach(q, seen)
        return seen
    rec = {p for p in cands if p in reach(p, set())}
    return {p: b for p, b in cands.items() if p not in rec and p not in valued}


def _ops(rv):
    out = []
    for k in ('op', 'a', 'b'):
        if isinstance(rv.get(k), dict):
            out.append(rv[k])
    for o in rv.get('ops') or []:
        if isinstance(o, dict):
            out.append(o)
    return out


_ADTS = {}


def _known(v):
    return v in ('Ok', 'Err', 'Some', 'None') or (isinstance(v, tuple) and len(v) == 2)


def _succs(t):
    k = t['k']
    if k in ('goto', 'drop', 'assert'):
        return [t['t']]
    if k == 'switch':
        return [a[1] for a in t['arms']] + [t['otherwise']]
    if k in ('call', 'yield'):
        return [t['t']] if t.get('t') is not None else []
    return []


def _retarget(t, old, new):
    k = t['k']
    if k in ('goto', 'drop', 'assert', 'call', 'yield'):
        if t.get('t') == old:
            t['t'] = new
    elif k == 'switch':
        t['arms'] = [[a[0], new if a[1] == old else a[1]] for a in t['arms']]
        if t['otherwise'] == old:
            t['otherwise'] = new


def _return_variants(hd):
    """forward dataflow over the helper: which variant of Result / Option does `_0` hold at the entry ('in', b) and exit ('out', b) of
    each block (None = unknown / mixed)"""
    blocks = hd['blocks']
    n = len(blocks)
    TOP = 'T'
    inn = [None] * n
    out = [None] * n

    def transfer(b, v):
        for s in blocks[b]['stmts']:
            if s.get('k') == 'assign' and s['place'].get('l') == 0 and not s['place'].get('p'):
                rv = s['rv']
                if rv.get('k') == 'aggr' and rv.get('kind') == 'adt' and rv.get('variant'):
                    v = rv['variant'] if rv.get('adt') in ('std::result::Result', 'core::result::Result', 'std::option::Option', 'core::option::Option') else (rv['variant'], rv.get('adt'))
                else:
                    v = TOP
        t = blocks[b]['term']
        if t['k'] == 'call' and (t.get('dest') or {}).get('l') == 0 and not (t.get('dest') or {}).get('p'):
            nm = (t.get('callee') or {}).get('name')
            v = 'Err' if nm == 'from_residual' and 'Result' in (hd['locals'][0].get('ty') or '') else ('None' if nm == 'from_residual' else TOP)
        return v

    def join(a, b):
        if a is None:
            return b
        if b is None:
            return a
        return a if a == b else TOP
    work = [0]
    inn[0] = TOP
    seen_out = {}
    it = 0
    while work and it < 20000:
        it += 1
        b = work.pop()
        o = transfer(b, inn[b])
        if seen_out.get(b) == o and out[b] is not None:
            continue
        out[b] = o
        seen_out[b] = o
        for s in _succs(blocks[b]['term']):
            if s >= n or blocks[s].get('cleanup'):
                continue
            j = join(inn[s], o)
            if j != inn[s]:
                inn[s] = j
                work.append(s)
            elif out[s] is None:
                work.append(s)
    res = {}
    for b in range(n):
        res[('in', b)] = inn[b] if inn[b] != TOP else None
        res[('out', b)] = out[b] if out[b] != TOP else None
    return res


def _threadable(blocks, t):
    """the caller's dispatch on the call result right at the call's target: `?` (Try::branch + switch on its discriminant) or a
    switch on the discriminant of the destination itself.  Returns {'chain': [block ids], 'switch': id, 'kind': 'try'|'direct'}"""
    dest = t['dest']
    if dest.get('p'):
        return None
    T = t['t']
    b = blocks[T]
    tt = b['term']
    if tt['k'] == 'call' and (tt.get('callee') or {}).get('name') == 'branch' and 'Try' in ((tt['callee'].get('def') or '') + (tt['callee'].get('trait') or '')) \
            and tt.get('args') and (tt['args'][0].get('place') or {}).get('l') == dest['l'] and not tt['args'][0]['place'].get('p') and tt.get('t') is not None:
        b2 = blocks[tt['t']]
        sw = b2['term']
        if sw['k'] == 'switch' and _discr_of(b2, sw, tt['dest']['l']):
            return {'chain': [T, tt['t']], 'kind': 'try'}
        return None
    if tt['k'] == 'switch' and _discr_of(b, tt, dest['l']):
        return {'chain': [T], 'kind': 'direct'}
    return None


def _discr_of(block, sw, local):
    op = sw.get('op') or {}
    pl = op.get('place') or {}
    if pl.get('p'):
        return False
    for s in reversed(block['stmts']):
        if s.get('k') == 'assign' and s['place'].get('l') == pl.get('l') and not s['place'].get('p'):
            rv = s['rv']
            return rv.get('k') == 'discr' and (rv.get('place') or {}).get('l') == local and not (rv.get('place') or {}).get('p')
    return False


def _split_tails(hd, new, extra, bo, variants, thread_fn):
    """Return paths of the helper often merge before the `return` (a shared chain of storage / drop blocks).  Every edge that enters
    that tail with a known result variant gets its own copy of the tail, which `thread_fn(copy_of_return_block, variant)` can then
    send to the matching arm of the caller's dispatch.  `new` are the relabelled helper blocks (index = helper block id), `extra`
    collects cloned blocks (their ids continue after `new`)."""
    blocks = hd['blocks']
    n = len(blocks)

    def plain(bi):
        bl = blocks[bi]
        if bl.get('cleanup'):
            return False
        if any(x.get('k') not in ('live', 'dead', 'nop') for x in bl['stmts']):
            return False
        return bl['term']['k'] in ('goto', 'drop', 'return')
    tail = set()
    for bi in range(n):
        if blocks[bi]['term']['k'] == 'return' and plain(bi):
            tail.add(bi)
    changed = True
    while changed:
        changed = False
        for bi in range(n):
            if bi in tail or not plain(bi) or blocks[bi]['term']['k'] == 'return':
                continue
            if blocks[bi]['term'].get('t') in tail:
                tail.add(bi)
                changed = True
    done = 0
    for pi in range(n):
        if pi in tail or blocks[pi].get('cleanup'):
            continue
        v = variants.get(('out', pi))
        if not _known(v):
            continue
        for q in set(_succs(blocks[pi]['term'])):
            if q not in tail:
                continue
            # clone the chain q -> .. -> return
            chain = []
            cur = q
            while cur is not None and cur in tail and len(chain) < 40:
                chain.append(cur)
                cur = blocks[cur]['term'].get('t') if blocks[cur]['term']['k'] != 'return' else None
            if not chain or blocks[chain[-1]]['term']['k'] != 'return':
                continue
            first = None
            prev = None
            last = None
            for c in chain:
                cl = _fresh(new[c])
                cid = bo + len(new) + len(extra)
                extra.append(cl)
                if first is None:
                    first = cid
                if prev is not None:
                    _retarget(prev['term'], bo + c, cid)
                prev = cl
                last = cl
            _retarget(new[pi]['term'], bo + q, first)
            thread_fn(last, v)
            done += 1
    return done


def _thread(ret_block, thread, variant, blocks, new, extra, bo):
    """make `ret_block` (an inlined return whose variant is known) continue through private copies of the dispatch chain that end in
    a goto to the arm matching the variant"""
    if ret_block['term'].get('k') != 'goto':
        return
    # discriminant values: Result Ok=0 Err=1, Option None=0 Some=1; ControlFlow Continue=0 Break=1 (Ok/Some continue)
    if isinstance(variant, tuple):
        # an enum of the crate: discriminant = declaration index (fieldless / data enums without explicit discriminants)
        if thread['kind'] == 'try':
            return
        a = _ADTS.get(variant[1])
        names = [v.get('name') for v in (a or {}).get('variants', [])]
        if variant[0] not in names or any(v.get('discr') not in (None, i) for i, v in enumerate((a or {}).get('variants', []))):
            return
        val = names.index(variant[0])
    elif thread['kind'] == 'try':
        val = 0 if variant in ('Ok', 'Some') else 1
    else:
        val = {'Ok': 0, 'Err': 1, 'None': 0, 'Some': 1}[variant]
    chain = thread['chain']
    first = None
    prev = None
    for ci, cid in enumerate(chain):
        cb = _fresh(blocks[cid])
        cb['threaded'] = variant
        nid = bo + len(new) + len(extra)
        extra.append(cb)
        if first is None:
            first = nid
        if prev is not None:
            _retarget(prev['term'], chain[ci], nid)
        prev = cb
    sw = prev['term']
    tgt = None
    for a in sw['arms']:
        if a[0] == val:
            tgt = a[1]
    if tgt is None:
        tgt = sw['otherwise']
    prev['term'] = {'k': 'goto', 't': tgt, 'line': sw.get('line'), 'glue': 'threaded', 'ds': sw.get('ds')}
    ret_block['term'] = dict(ret_block['term'], t=first)


def inline_body(d, helpers, raw_by_path, depth=0, stack=()):
    """returns a new body dict in which calls to helpers are replaced by the helper's blocks (recursively)"""
    d = copy.copy(d)
    locals_ = list(d['locals'])
    blocks = [dict(b) for b in d['blocks']]
    inlined = list(d.get('inlined') or [])
    i = 0
    changed = False
    while i < len(blocks):
        t = blocks[i]['term']
        if t['k'] == 'call' and not blocks[i].get('cleanup'):
            p = callee_path(t)
            if p in helpers and p not in stack and depth < MAX_DEPTH and len(blocks) < MAX_BLOCKS:
                hb = helpers[p]
                hd = inline_body(hb.d, helpers, raw_by_path, depth + 1, stack + (p,))
                if len(t.get('args') or []) == hd.get('arg_count', 0):
                    lo, bo = len(locals_), len(blocks)
                    for l in hd['locals']:
                        l2 = dict(l)
                        l2['i'] = l['i'] + lo
                        l2['from'] = p
                        if l2.get('name'):
                            # a helper's locals never live across a suspension point of the caller; keep their names apart from the caller's
                            l2['name'] = '%s@%s' % (l2['name'], p.split('::')[-1])
                        locals_.append(l2)
                    line = t.get('line')
                    glue = []
                    for k, a in enumerate(t.get('args') or []):
                        pl = {'l': lo + 1 + k, 's': '_%d' % (lo + 1 + k), 'ty': hd['locals'][1 + k].get('ty', '')}
                        glue.append({'k': 'assign', 'place': pl, 'rv': {'k': 'use', 'op': a}, 'line': line, 'glue': 'arg'})
                    new = []
                    variants = _return_variants(hd)
                    thread = _threadable(blocks, t) if t.get('t') is not None else None
                    extra = []
                    for hi, hb_blk in enumerate(hd['blocks']):
                        nb = _relabel(hb_blk, lo, bo)
                        nb['from'] = p
                        nb['file'] = hb_blk.get('file') or hd.get('file')
                        tt = nb['term']
                        if tt['k'] == 'return':
                            st = list(nb['stmts'])
                            ret = {'l': lo, 's': '_%d' % lo, 'ty': hd['locals'][0].get('ty', '')}
                            st.append({'k': 'assign', 'place': t['dest'], 'rv': {'k': 'use', 'op': {'k': 'move', 'place': ret}}, 'line': tt.get('line'), 'glue': 'ret'})
                            nb['stmts'] = st
                            if t.get('t') is not None:
                                nb['term'] = {'k': 'goto', 't': t['t'], 'line': tt.get('line'), 'glue': 'ret'}
                            else:
                                nb['term'] = {'k': 'unreachable', 'line': tt.get('line')}
                        new.append(nb)
                    # jump threading: a return whose Result / Option variant is known goes straight to the matching arm of the
                    # caller's `?` / match on the call result (otherwise every path-insensitive rule sees the helper's error
                    # return flow into the caller's success continuation)
                    for hi, hb_blk in enumerate(hd['blocks']):
                        if hb_blk['term']['k'] != 'return':
                            continue
                        preds = [(pi, pb) for pi, pb in enumerate(hd['blocks']) if hi in _succs(pb['term']) and not pb.get('cleanup')]
                        tail_only = all(x.get('k') in ('live', 'dead', 'nop') for x in hb_blk['stmts'])
                        known_all = variants.get(('in', hi))
                        if _known(known_all):
                            if thread is not None:
                                _thread(new[hi], thread, known_all, blocks, new, extra, bo)
                        elif tail_only and len(preds) > 1 and all(_known(variants.get(('out', pi))) for pi, _ in preds):
                            # split the shared return block per predecessor: each copy then has one reaching definition of the result
                            for pi, pb in preds:
                                v = variants[('out', pi)]
                                clone = _fresh(new[hi])
                                cid = bo + len(new) + len(extra)
                                extra.append(clone)
                                _retarget(new[pi]['term'], bo + hi, cid)
                                if thread is not None:
                                    _thread(clone, thread, v, blocks, new, extra, bo)
                    new.extend(extra)
                    blk = dict(blocks[i])
                    blk['stmts'] = list(blk['stmts']) + glue
                    blk['term'] = {'k': 'goto', 't': bo, 'line': line, 'glue': 'call', 'inlined_call': t}
                    blocks[i] = blk
                    blocks.extend(new)
                    inlined.append(p)
                    inlined.extend(x for x in (hd.get('inlined') or []) if x not in inlined)
                    changed = True
        i += 1
    if not changed:
        return d
    d['locals'] = locals_
    d['blocks'] = blocks
    d['inlined'] = inlined
    return d


def _same_module_scope(helper_file, caller_file):
    """the helper lives in the caller's source file, or in the mod.rs / lib.rs of a directory the caller's file is under (a private
    function of a parent module used by one function of a child module)"""
    if helper_file == caller_file:
        return True
    import os
    hf, cf = helper_file or '', caller_file or ''
    if os.path.basename(hf) in ('mod.rs', 'lib.rs') and cf.startswith(os.path.dirname(hf) + '/'):
        return True
    return False


def thread_flags(d):
    """`let mut done = false; while !done { ..; done = <test>; }` is the loop `loop { ..; if <test> { break } }` written with a flag.
    Every jump into a block that only switches on a boolean local, coming from a block whose last statement-level assignment to
    that local is a constant or a comparison, is redirected: constants go straight to the target, comparisons get their own switch
    in the assigning block.  Returns a new body dict (or d itself when nothing applies)."""
    blocks = d['blocks']
    n = len(blocks)
    heads = {}
    for h, bl in enumerate(blocks):
        t = bl['term']
        if bl.get('cleanup') or t['k'] != 'switch' or t.get('op_ty') != 'bool':
            continue
        pl = (t.get('op') or {}).get('place')
        if not pl or pl.get('p'):
            continue
        # the operand is computed in this block from one local through copies / Not
        cur, neg, ok = pl['l'], False, True
        other = False
        for s in reversed(bl['stmts']):
            if s.get('k') != 'assign':
                continue
            if s['place'].get('p') or s['place']['l'] != cur:
                other = True
                continue
            rv = s['rv']
            if rv['k'] == 'use' and (rv['op'].get('place') or {}).get('l') is not None and not rv['op']['place'].get('p'):
                cur = rv['op']['place']['l']
            elif rv['k'] == 'un' and rv.get('op') == 'Not' and (rv['a'].get('place') or {}).get('l') is not None and not rv['a']['place'].get('p'):
                cur = rv['a']['place']['l']
                neg = not neg
            else:
                ok = False
                break
        if not ok or other:
            continue
        arms = {a[0]: a[1] for a in t['arms']}
        t_false = arms.get(0, t['otherwise'])
        t_true = t['otherwise'] if 0 in arms else arms.get(1, t['otherwise'])
        if neg:
            t_false, t_true = t_true, t_false
        heads[h] = (cur, t_false, t_true)
    if not heads:
        return d
    # trivial forwarders into a head (loop headers)
    fwd = {}
    for b, bl in enumerate(blocks):
        if bl['term']['k'] == 'goto' and not any(s.get('k') == 'assign' for s in bl['stmts']) and not bl.get('cleanup'):
            fwd[b] = bl['term']['t']

    def resolve(t):
        seen = 0
        while t in fwd and t not in heads and seen < 4:
            t = fwd[t]
            seen += 1
        return t if t in heads else None
    new = None
    for b, bl in enumerate(blocks):
        t = bl['term']
        if t['k'] != 'goto' or bl.get('cleanup'):
            continue
        h = resolve(t['t'])
        if h is None or h == b:
            continue
        f, t_false, t_true = heads[h]
        last = None
        for s in reversed(bl['stmts']):
            if s.get('k') == 'assign' and s['place']['l'] == f:
                last = s
                break
        if last is None or last['place'].get('p'):
            continue
        rv = last['rv']
        nt = None
        if rv['k'] == 'use' and rv['op'].get('k') == 'const' and rv['op'].get('ty') == 'bool':
            val = rv['op'].get('val')
            if val is None:
                val = {'const true': 1, 'const false': 0, 'true': 1, 'false': 0}.get(str(rv['op'].get('s', '')).lower())
            if val is None:
                continue
            nt = {'k': 'goto', 't': t_true if val else t_false, 'line': t.get('line'), 'glue': 'flag'}
        elif rv['k'] == 'bin' and rv.get('op') in ('Eq', 'Ne', 'Lt', 'Le', 'Gt', 'Ge'):
            nt = {'k': 'switch', 'op': {'k': 'copy', 'place': {'l': f, 's': '_%d' % f, 'ty': 'bool'}}, 'op_ty': 'bool', 'arms': [[0, t_false]], 'otherwise': t_true,
                  'line': last.get('line'), 'glue': 'flag'}
        if nt is None:
            continue
        if new is None:
            new = [dict(x) for x in blocks]
        new[b]['term'] = nt
    if new is None:
        return d
    d2 = dict(d)
    d2['blocks'] = new
    d2['flag_threaded'] = True
    return d2


class Normal:
    """normal form of a crate's bodies: private synchronous helpers that have a single calling function (in the same source file
    unless same_file=False) are absorbed into that caller; everything else is kept.  `bodies` is the list to iterate over,
    `of(path)` the normal-form body of a function (or the body that absorbed it)."""

    def __init__(self, crate, same_file=True, exclude=()):
        from mir import Body
        self.crate = crate
        crate.raw_bodies = getattr(crate, 'raw_bodies', crate.bodies)
        cands = {p: b for p, b in helper_candidates(crate).items() if not p.startswith(tuple(exclude))} if exclude else helper_candidates(crate)
        callers = {}
        for b in crate.raw_bodies:
            if b.in_test:
                continue
            for blk in b.blocks:
                t = blk['term']
                if t['k'] == 'call':
                    p = callee_path(t)
                    if p in cands:
                        callers.setdefault(p, set()).add(b.path)
        raw_by_path = {}
        for b in crate.raw_bodies:
            raw_by_path.setdefault(b.path, b)
        _ADTS.clear()
        _ADTS.update(getattr(crate, 'adts', {}) or {})
        self.absorbed = {}
        for p, hb in cands.items():
            cs = callers.get(p, set())
            if not cs:
                continue
            if len(cs) > 1 and (hb.n > SMALL_HELPER_BLOCKS or len(cs) > 6):
                continue            # a shared helper is copied into each of its callers only when it is small
            ok = True
            for cp in cs:
                c = raw_by_path.get(cp)
                if c is None or (same_file and not _same_module_scope(hb.file, c.file)):
                    ok = False
            if ok:
                self.absorbed[p] = hb
        self.host = {}
        self.bodies = []
        self._by_path = {}
        for b in crate.raw_bodies:
            if b.path in self.absorbed:
                continue
            if b.in_test:
                nb = b
            else:
                d2 = inline_body(b.d, self.absorbed, raw_by_path) if self.absorbed else b.d
                if not b.path.startswith(SROA_EXCLUDE) and not os.environ.get('ZL_NOSROA'):
                    import sroa as _sroa
                    d2 = _sroa.sroa(d2, crate)
                d3 = thread_flags(d2)
                if not b.path.startswith(SPLIT_EXCLUDE) and '::_serde::' not in b.path and not os.environ.get('ZL_NOSPLIT'):
                    import splitflags
                    d3 = splitflags.split_flags(d3, getattr(crate, 'adts', None))
                nb = b if d3 is b.d else Body(d3, crate)
            self.bodies.append(nb)
            self._by_path.setdefault(nb.path, nb)
            for p in nb.d.get('inlined') or []:
                self.host[p] = nb

    def of(self, path):
        """normal-form body for `path`; for an absorbed helper the body of the function that now contains its code"""
        return self._by_path.get(path) or self.host.get(path)

    def impl_bodies(self, adt_sub):
        return [b for b in self.bodies if adt_sub in (b.impl_self or '') or adt_sub in b.path]


_NORMAL = {}


def normal(crate, same_file=True, exclude=()):
    k = (id(crate), same_file, tuple(exclude))
    if k not in _NORMAL:
        _NORMAL[k] = Normal(crate, same_file, exclude)
    return _NORMAL[k]


# modules whose rules anchor on function names and do their own inlining (engines L and M, C03's tables)
GLOBAL_EXCLUDE = ('idl::', 'json_ser::')
GLOBAL_CRATES = ('zlink_core', 'zlink_tokio', 'zlink_smol', 'zlink')


def apply_global(crate):
    """crate.bodies := normal form (used by mir.Crate at load time)"""
    if crate.name not in GLOBAL_CRATES:
        return
    n = normal(crate, True, GLOBAL_EXCLUDE)
    crate.normal = n
    crate.bodies = n.bodies
    by = {}
    for b in crate.bodies:
        by.setdefault(b.path, b)
    for b in crate.raw_bodies:
        by.setdefault(b.path, b)
    crate.by_path = by



# ------------------------------------------------------------------------------------------------ awaited private async helpers

def _await_pattern(blocks, b0):
    """for `helper(args).await` starting at the call block b0: (poll block, switch block, ready target) or None"""
    t = blocks[b0]['term']
    cur = t.get('t')
    fut = t['dest']['l']
    into = None
    for _ in range(10):
        if cur is None:
            return None
        bl = blocks[cur]
        tt = bl['term']
        if tt['k'] == 'call':
            nm = (tt.get('callee') or {}).get('name')
            if nm == 'into_future':
                a = (tt['args'][0].get('place') or {}) if tt.get('args') else {}
                if a.get('l') != fut:
                    return None
                into = cur
            elif nm == 'poll' and tt.get('ds') == 'Await':
                if into is None:
                    return None
                sw = tt.get('t')
                if sw is None or blocks[sw]['term']['k'] != 'switch':
                    return None
                arms = {a[0]: a[1] for a in blocks[sw]['term']['arms']}
                if 0 not in arms:
                    return None
                return cur, sw, arms[0]
            elif nm not in ('new_unchecked', 'get_context'):
                return None
            cur = tt.get('t')
        elif tt['k'] == 'goto':
            cur = tt['t']
        else:
            return None
    return None


def _await_dispatch_chain(blocks, ready, poll_local):
    """the straight-line blocks from the Ready arm of an await to the dispatch on the awaited value (`?` = Try::branch + switch, or a switch
    on its discriminant): {'chain': [...], 'kind': 'try'|'direct'} or None"""
    carried = {poll_local}
    chain = []
    cur = ready
    for _ in range(10):
        if cur is None:
            return None
        bl = blocks[cur]
        chain.append(cur)
        for st in bl['stmts']:
            if st.get('k') == 'assign' and not st['place'].get('p'):
                rv = st['rv']
                src = (rv.get('op') or {}).get('place') if rv.get('k') == 'use' else None
                if src and src.get('l') in carried:
                    carried.add(st['place']['l'])
        tt = bl['term']
        if tt['k'] == 'call' and (tt.get('callee') or {}).get('name') == 'branch' and 'Try' in (((tt.get('callee') or {}).get('def') or '') + ((tt.get('callee') or {}).get('trait') or '')):
            a = (tt['args'][0].get('place') or {}) if tt.get('args') else {}
            if a.get('l') in carried and not a.get('p') and tt.get('t') is not None and blocks[tt['t']]['term']['k'] == 'switch' \
                    and _discr_of(blocks[tt['t']], blocks[tt['t']]['term'], tt['dest']['l']):
                return {'chain': chain + [tt['t']], 'kind': 'try'}
            return None
        if tt['k'] == 'switch':
            op = (tt.get('op') or {}).get('place') or {}
            for st in reversed(bl['stmts']):
                if st.get('k') == 'assign' and st['place'].get('l') == op.get('l') and st['rv'].get('k') == 'discr':
                    if (st['rv'].get('place') or {}).get('l') in carried and not (st['rv']['place'].get('p')):
                        return {'chain': chain, 'kind': 'direct'}
            return None
        if tt['k'] in ('goto', 'drop'):
            cur = tt['t']
        elif tt['k'] == 'call' and tt.get('t') is not None and (tt.get('callee') or {}).get('name') not in ('poll', 'into_future'):
            cur = tt['t']
        else:
            return None
    return None


def _subst_upvars(x, self_local, up):
    """places `(_self.k).rest` -> `_up[k].rest`"""
    if isinstance(x, list):
        for y in x:
            _subst_upvars(y, self_local, up)
        return
    if not isinstance(x, dict):
        return
    if x.get('l') == self_local and 's' in x and x.get('p') and isinstance(x['p'][0], dict) and isinstance(x['p'][0].get('f'), int) and x['p'][0]['f'] in up:
        k = x['p'][0]['f']
        x['l'] = up[k]
        x['p'] = list(x['p'][1:]) or None
        x['s'] = '_%d' % up[k] + ('~' if x['p'] else '')
    for v in x.values():
        if isinstance(v, (dict, list)):
            _subst_upvars(v, self_local, up)


def expand_async(crate, body, exclude=(), depth=2, single_caller=False):
    """body with the awaited calls of private async helper functions (same module scope, not in `exclude`) replaced by the helper's
    coroutine body: the helper's upvars are the call's arguments, its yields stay yields, its return continues at the Ready arm of the
    await.  Used where a rule anchors on one coroutine (Server::run, the call handler) and a maintainer may move part of it into an
    `async fn` helper."""
    from mir import Body
    by = {}
    for b in crate.raw_bodies:
        by.setdefault(b.path, b)
    nb_by = crate.by_path
    d = body.d
    changed = False
    awaiters = None
    if single_caller:
        awaiters = {}
        for rb in crate.raw_bodies:
            if rb.in_test:
                continue
            for blk in rb.blocks:
                t_ = blk['term']
                if t_['k'] == 'call':
                    p_ = callee_path(t_)
                    if p_:
                        awaiters.setdefault(p_, set()).add(rb.path)
    for _round in range(depth):
        blocks = [dict(x) for x in d['blocks']]
        locals_ = list(d['locals'])
        did = False
        i = 0
        n0 = len(blocks)
        while i < n0:
            t = blocks[i]['term']
            if t['k'] == 'call' and not blocks[i].get('cleanup'):
                p = callee_path(t)
                shell = by.get(p) if p else None
                copath = (p + '::{closure#0}') if p else None
                co = nb_by.get(copath) if copath else None
                if shell is not None and co is not None and co.is_coroutine and copath not in exclude and p not in exclude \
                        and shell.d.get('vis') == 'restricted' and shell.d.get('impl_trait') is None and _same_module_scope(shell.file, body.file) \
                        and not (t['dest'].get('p')) and len(t.get('args') or []) == shell.arg_count \
                        and (awaiters is None or len(awaiters.get(p, ())) == 1):
                    pat = _await_pattern(blocks, i)
                    if pat is not None:
                        pollb, swb, ready = pat
                        poll_dest = blocks[pollb]['term']['dest']
                        hd = co.d
                        lo, bo = len(locals_), len(blocks)
                        for l in hd['locals']:
                            l2 = dict(l)
                            l2['i'] = l['i'] + lo
                            l2['from'] = copath
                            if l2.get('name'):
                                l2['name'] = '%s@%s' % (l2['name'], p.split('::')[-1])
                            locals_.append(l2)
                        line = t.get('line')
                        # one fresh local per upvar, initialised from the call's argument; the helper's `(_1.k)` places become these locals
                        glue = []
                        up = {}
                        for k_, a_ in enumerate(t.get('args') or []):
                            li = len(locals_)
                            aty = ((a_.get('place') or {}).get('ty')) or a_.get('ty') or ''
                            locals_.append({'i': li, 'ty': aty, 'mut': False, 'user': False, 'from': copath, 'upvar': k_})
                            up[k_] = li
                            glue.append({'k': 'assign', 'place': {'l': li, 's': '_%d' % li, 'ty': aty}, 'rv': {'k': 'use', 'op': a_}, 'line': line, 'glue': 'upvar'})
                        for hb_blk in hd['blocks']:
                            nb = _relabel(hb_blk, lo, bo)
                            _subst_upvars(nb, lo + 1, up)
                            nb['from'] = copath
                            nb['file'] = hb_blk.get('file') or hd.get('file')
                            tt = nb['term']
                            if tt['k'] == 'return':
                                st = list(nb['stmts'])
                                ret = {'l': lo, 's': '_%d' % lo, 'ty': hd['locals'][0].get('ty', '')}
                                st.append({'k': 'assign', 'place': poll_dest,
                                           'rv': {'k': 'aggr', 'kind': 'adt', 'adt': 'std::task::Poll', 'variant': 'Ready', 'fields': ['0'], 'ops': [{'k': 'move', 'place': ret}]},
                                           'line': tt.get('line'), 'glue': 'ret'})
                                nb['stmts'] = st
                                nb['term'] = {'k': 'goto', 't': ready, 'line': tt.get('line'), 'glue': 'ret'}
                            elif tt['k'] == 'coroutine_drop':
                                nb['term'] = {'k': 'unreachable', 'line': tt.get('line')}
                            blocks.append(nb)
                        # jump threading over the awaited result (`helper().await?`): returns with a known variant go to the matching arm
                        chain = _await_dispatch_chain(blocks, ready, poll_dest['l'])
                        if chain is not None:
                            variants = _return_variants(hd)
                            new_ = blocks[bo:]
                            extra = []
                            _split_tails(hd, new_, extra, bo, variants, lambda rb_, v_: _thread(rb_, chain, v_, blocks, new_, extra, bo))
                            blocks.extend(extra)
                        blk = dict(blocks[i])
                        blk['stmts'] = list(blk['stmts']) + glue
                        blk['term'] = {'k': 'goto', 't': bo, 'line': line, 'glue': 'await-call', 'inlined_call': t}
                        blocks[i] = blk
                        did = True
            i += 1
        if not did:
            break
        d = dict(d)
        d['blocks'] = blocks
        d['locals'] = locals_
        d['inlined'] = list(d.get('inlined') or []) + ['async']
        changed = True
    return Body(d, crate) if changed else body
