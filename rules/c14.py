"""C14 - rendering an interface description and parsing it back is the identity (R14.1 - R14.6)."""
import re
import ast as A
import common as C
from mir import op_place

IDL = 'zlink-core/src/idl'
LIST_WORDS = ('variant', 'field', 'input', 'output', 'param')
PRIMS = {'Bool': 'bool', 'Int': 'int', 'Float': 'float', 'String': 'string', 'ForeignObject': 'object'}
WRAPPERS = {'Optional': '?', 'Array': '[]', 'Map': '[string]'}

META = {
    'level': 'other',
    'explanation': (
        'Format-template and table-agreement rules over the Display impls of the IDL nodes (syntax tree) and the parser (syntax '
        'tree + MIR): (R14.1) in every Display impl, each loop over a list of fields / parameters / variants writes a `,` '
        'between elements in every formatting branch (the grammar separates list elements by commas only); (R14.2) printer and '
        'parser token tables agree: the five primitive names are printed for the same Type variants the parser maps them to, '
        'the wrappers `?`, `[]`, `[string]` are printed for the variants the parser builds after those literals, and the member '
        'keywords `interface `, `type `, `method `, `error `, ` -> ` are literals of the parser; (R14.3) the interface description '
        'travels as its Display text (collect_str / to_string) and the receiver parses it with the same entry function; (R14.4) '
        'each node\'s Display reads every field of the node (nothing is silently omitted from the text); (R14.5) the element '
        'parser behind `[]` and `[string]` is the full type parser used for field types (whatever Display prints for an element '
        'must parse; only `?` restricts its inner type); (R14.6) comments are recognised only where they are attached or skipped '
        'today (`ws`, `comment_def`): a new function that looks for `#` and advances the input is reported, because a comment '
        'that is skipped instead of attached is lost on the way back. Not decided: identity for every description (layout, odd '
        'characters in comments).'),
    'assumptions': ['the parser grammar is the Varlink grammar (C13)'],
}


def display_impls(t):
    out = []
    for f, n, impl in A.all_fns(t, IDL):
        if n['name'] == 'fmt' and impl and 'Display' in (impl.get('trait') or '') and '/parse/' not in f:
            out.append((f, n, re.sub(r"<.*", '', (impl.get('self_ty') or '').replace(' ', ''))))
    return out


def writes(node):
    return [m for m in A.nodes(node) if m.get('k') == 'macro' and m.get('name') in ('write', 'writeln')] + \
        [m for m in A.nodes(node) if m.get('k') == 'mcall' and m.get('method') in ('write_str', 'write_char')]


def fmt_of(m):
    if m.get('k') == 'macro':
        return m.get('fmt') or ''
    return ' '.join(A.text(a) for a in m.get('args') or [])


def always_writes(stmts, needle):
    """does every normal path through this statement list write a literal containing `needle`?"""
    if isinstance(stmts, dict):
        stmts = [stmts]
    for st in stmts or []:
        if _always(st, needle):
            return True
    return False


def _always(n, needle):
    if not isinstance(n, dict):
        return False
    k = n.get('k')
    if k in ('tail', 'try', 'expr', 'semi', 'paren', 'return', 'stmt'):
        return _always(n.get('expr'), needle)
    if k == 'let':
        return _always(n.get('init'), needle)
    if k == 'macro' and n.get('name') in ('write', 'writeln'):
        return needle in (n.get('fmt') or '')
    if k == 'mcall' and n.get('method') in ('write_str', 'write_char'):
        return any(needle in A.text(a) for a in n.get('args') or []) or _always(n.get('recv'), needle)
    if k == 'mcall':
        return _always(n.get('recv'), needle)
    if k == 'block':
        return always_writes(n.get('stmts') or n.get('body'), needle)
    if k == 'if':
        return n.get('else') is not None and always_writes(n.get('then'), needle) and always_writes(n.get('else'), needle)
    if k == 'match':
        arms = n.get('arms') or []
        return bool(arms) and all(always_writes(a.get('body'), needle) for a in arms)
    return False


def check_comment_display(rep, t, rule='R14.9'):
    """every comment renders its `#` marker, whatever its text (an empty comment is still a line of the text)"""
    F = IDL + '/comment.rs'
    found = False
    for f, n, impl in A.all_fns(t, F):
        if n['name'] == 'fmt' and impl and 'Display' in (impl.get('trait') or '') and (impl.get('self_ty') or '').startswith('Comment'):
            found = True
            rep.check(always_writes(n['body'], '#'), rule, 'Comment|marker-on-every-path', '%s:%s' % (f, n.get('line')),
                      'every path through the Display of Comment writes the `#` marker',
                      'the Display of Comment has a path that writes no `#` (e.g. for an empty text): the comment disappears from the rendered text, so parsing it back yields fewer comments')
    if not found:
        rep.bad(rule, 'Comment|anchor', F, 'Display impl of Comment not found')


def check_comment_confined(rep, crate, rule='R14.7'):
    """a line comment is confined to its line (shared with C13)"""
    pb = [b for b in crate.bodies if b.path.startswith('idl::parse::') and not b.in_test and b.kind == 'Fn']
    byname = {b.name: b for b in pb}
    cd = byname.get('comment_def')
    if cd is None:
        rep.bad(rule, 'comment_def|anchor', IDL + '/parse/mod.rs', 'comment_def not found')
    else:
        bad = []
        for blk, tm in cd.iter_terms('call'):
            d = tm['callee'].get('def') or ''
            a = tm['callee'].get('args') or ''
            if d.split('::')[-1] in ('ws', 'whitespace_only', 'parse_preceding_comments') or 'multispace' in a or 'multispace' in d or 'line_ending' in a or 'newline' in a:
                bad.append('%s at %s' % (d.split('::')[-1] if d.startswith('idl::parse') else re.sub(r'.*(multispace\d|line_ending|newline).*', r'\1', a), C.where(cd, blk)))
        # the text scan stops at the newline
        stops = any(o.get('k') == 'const' and o.get('val') == 10 for c2 in [cd] + C.nested(crate, cd) for blk, i, st in c2.iter_assigns()
                    for o in [st['rv'].get('a'), st['rv'].get('b')] if isinstance(o, dict))
        rep.check(not bad and stops, rule, 'comment_def|confined-to-line', cd.where(),
                  'between `#` and the end of the line the comment parser calls nothing that can consume a newline, and its text scan stops at the newline',
                  'the comment parser can consume a newline before reading the comment text (%s): an empty comment swallows the following line, so `# ` + next line do not survive a round trip' % (bad or 'no scan up to the newline found'))


def check(fx, rep, tier):
    rep.rule('R14.1', 'every loop over a list of fields / parameters / variants in a Display impl writes a `,` between elements, in every branch')
    rep.rule('R14.2', 'printer and parser token tables agree (primitive names, wrappers, member keywords)')
    rep.rule('R14.3', 'the interface description is serialised as its Display text and parsed back by the same entry function')
    rep.rule('R14.4', 'each node\'s Display reads every field of the node')
    rep.rule('R14.5', 'the element parser behind `[]` / `[string]` is the full type parser used for field types')
    rep.rule('R14.7', 'a line comment is confined to its line: comment_def calls no newline-consuming parser before its text and scans up to the newline')
    rep.rule('R14.6', 'comments are recognised only in ws / comment_def: no other function tests for `#` and advances the input')
    rep.rule('R14.9', 'the Display of Comment writes the `#` marker on every path')
    rep.rule('R14.10', 'what Display writes before members and inside nested types parses back: no byte look-ahead in phrase parsers, member names are scanned only after a comment-aware step (rules R13.9 / R13.10 of C13)')
    rep.rule('R14.8', 'rendered names parse back: the name scanners accept exactly the names of the grammar (rule R13.7 of C13: abstract interpretation of the scanners against the lexical rules), so every legal name Display writes is read back whole')
    t = fx.tpl
    disp = display_impls(t)
    if len(disp) < 8:
        rep.bad('R14.1', 'anchor-display-impls', IDL, 'expected the Display impls of the IDL nodes, found %d' % len(disp))
        return META
    # ---- R14.1
    n_loops = 0
    for f, n, ty in disp:
        ord_ = 0
        for x, path in A.nodes_with_path(n['body']):
            if x.get('k') != 'for':
                continue
            it = re.sub(r'\s', '', x.get('iter') or A.text(x.get('iter_node')) or '')
            if 'comment' in it.lower():
                continue
            if not any(w in it.lower() for w in LIST_WORDS):
                continue
            ord_ += 1
            n_loops += 1
            ws_ = writes(x.get('body'))
            sep = any(',' in fmt_of(m) for m in ws_)
            # which branch
            conds = [re.sub(r'\s', '', p.get('cond') or '') for p in path if p.get('k') == 'if']
            arms = [re.sub(r'\s', '', p.get('pat') or '') for p in path if p.get('k') == 'arm']
            in_else = [p for p in path if p.get('k') == 'if' and x in list(A.nodes(p.get('else')))]
            branch = ('else-of:' if in_else else 'if:') + conds[-1] if conds else ''
            # which of the renderer's layouts this loop belongs to is read off what it writes (one element per line or not), not off the position of
            # the branch: `if c {A} else {B}` and `if !c {B} else {A}` are the same renderer
            multiline = any(m.get('name') == 'writeln' or '\\n' in fmt_of(m) or '\n' in fmt_of(m) for m in ws_)
            layout = ('multi-line' if multiline else 'single-line') if conds else 'plain'
            key = '%s|list-loop|%s|%s|%s' % (ty, re.sub(r'\.enumerate\(\)$', '', it), '/'.join(arms[-1:]), layout)
            rep.check(sep, 'R14.1', key, '%s:%s' % (f, x.get('line')), 'list elements of %s are separated by `,`' % it,
                      'the renderer of %s writes the elements of `%s` without a `,` between them%s: the text does not follow the grammar and the parser rejects it' % (
                          ty, it, (' in the branch `%s`' % conds[-1]) if conds else ''))
    rep.floor('R14.1', 4, 'element-list loops in Display impls')
    # ---- R14.2 token tables
    tdisp = [x for x in disp if x[2] == 'Type']
    printer = {}
    if tdisp:
        f, n, _ = tdisp[0]
        for m in A.nodes(n['body']):
            if m.get('k') == 'match':
                for arm in m.get('arms') or []:
                    pm = re.match(r'Type\s*::\s*(\w+)', arm.get('pat') or '')
                    if pm:
                        w = writes(arm.get('body'))
                        if w:
                            printer[pm.group(1)] = fmt_of(w[0])
    parser_prims = {}
    parser_wrap = {}
    kw = set()
    for f, n, impl in A.all_fns(t, IDL + '/parse/mod.rs'):
        lits = []
        for x in A.nodes(n['body']):
            if x.get('k') == 'call' and (x.get('func') if isinstance(x.get('func'), str) else '').split('::')[-1].startswith('literal') and x.get('args') and x['args'][0].get('k') == 'str':
                lits.append(x['args'][0]['value'])
                kw.add(x['args'][0]['value'])
            elif x.get('k') in ('call', 'mcall'):
                # a token handed to a helper that parses it (e.g. prefixed_type("[]", input))
                for a in x.get('args') or []:
                    if isinstance(a, dict) and a.get('k') == 'str' and a.get('value') in WRAPPERS.values():
                        lits.append(a['value'])
            if x.get('k') == 'mcall' and x.get('method') == 'map' and (x.get('recv') or {}).get('k') == 'call' and x['recv'].get('args') and x['recv']['args'][0].get('k') == 'str':
                body = A.text((x.get('args') or [{}])[0]) + ' ' + ' '.join(y.get('text', '') for y in A.nodes(x.get('args')) if y.get('k') == 'path')
                pm = re.search(r'Type::(\w+)', body)
                if pm:
                    parser_prims[pm.group(1)] = x['recv']['args'][0]['value']
        ctor = [re.search(r'Type::(\w+)', A.text(x) if x.get('k') != 'path' else x.get('text', '')) for x in A.nodes(n['body']) if x.get('k') in ('call', 'path')]
        ctor = [c.group(1) for c in ctor if c]
        for w, litv in WRAPPERS.items():
            if litv in lits and w in ctor:
                parser_wrap[w] = litv
    for var, name in PRIMS.items():
        rep.check(printer.get(var) == name and parser_prims.get(var) == name, 'R14.2', 'primitive|%s' % var, IDL,
                  'Type::%s is printed as `%s` and parsed from `%s`' % (var, printer.get(var), parser_prims.get(var)),
                  'printer and parser disagree on Type::%s: printed `%s`, parsed from `%s` (grammar: `%s`)' % (var, printer.get(var), parser_prims.get(var), name))
    for var, lit in WRAPPERS.items():
        p = printer.get(var) or ''
        rep.check(p.startswith(lit + '{') and parser_wrap.get(var) == lit, 'R14.2', 'wrapper|%s' % var, IDL,
                  'Type::%s is printed with prefix `%s` and built by the parser after the same literal' % (var, lit),
                  'printer and parser disagree on the prefix of Type::%s: printed `%s`, parser literal `%s`' % (var, p, parser_wrap.get(var)))
    words = {'Interface': 'interface ', 'CustomObject': 'type ', 'CustomEnum': 'type ', 'Method': 'method ', 'Error': 'error '}
    for f, n, ty in disp:
        if ty in words:
            fm = ' '.join(fmt_of(m) for m in writes(n['body']))
            rep.check(words[ty] in fm and words[ty].strip() in kw, 'R14.2', 'keyword|%s' % ty, '%s:%s' % (f, n.get('line')),
                      '%s is printed with the keyword `%s`, a literal of the parser' % (ty, words[ty].strip()),
                      'the keyword printed for %s (`%s` expected) is not printed or not a literal of the parser' % (ty, words[ty].strip()))
        if ty == 'Method':
            fm = ' '.join(fmt_of(m) for m in writes(n['body']))
            rep.check('->' in fm and '->' in kw, 'R14.2', 'keyword|arrow', '%s:%s' % (f, n.get('line')), 'the method arrow `->` is printed and parsed', 'the method arrow is not printed / parsed consistently')
    # ---- R14.3
    F3 = 'zlink-core/src/varlink_service/interface_description.rs'
    ser = de = parse = False
    for f, n, impl in A.all_fns(t, F3):
        for x in A.nodes(n['body']):
            if x.get('k') == 'mcall' and x.get('method') in ('collect_str', 'to_string') and n['name'] == 'serialize':
                ser = True
            if n['name'] == 'parse' and (x.get('k') == 'call' and 'try_from' in str(x.get('func')) or x.get('k') == 'mcall' and x.get('method') in ('try_into', 'parse')):
                parse = True
    rep.check(ser, 'R14.3', 'interface-description|serialised-as-display-text', F3, 'InterfaceDescription serialises the Display text of the interface',
              'InterfaceDescription does not serialise the interface through its Display text')
    rep.check(parse, 'R14.3', 'interface-description|parsed-by-the-parser', F3, 'InterfaceDescription::parse hands the raw text to the IDL parser',
              'InterfaceDescription::parse does not hand the raw text to the IDL parser')
    # ---- R14.4 field coverage
    structs = {}
    for fn_, it in t.items(IDL, 'struct'):
        if '/parse/' in fn_ or it.get('test'):
            continue
        structs[it['name']] = (fn_, it)
    for f, n, ty in disp:
        if ty not in structs or ty in ('TypeRef',):
            continue
        fn_, it = structs[ty]
        fields = [fl['name'] for fl in it.get('fields') or [] if 'PhantomData' not in (fl.get('ty') or '') and not fl['name'].isdigit()]
        used = set()
        for x in A.nodes(n['body']):
            if x.get('k') == 'field' and A.text(x.get('base')) == 'self':
                used.add(x.get('member'))
            if x.get('k') == 'mcall' and A.text(x.get('recv')) == 'self':
                used.add(x.get('method'))
            if x.get('k') == 'macro':
                for v in re.findall(r'self\s*\.\s*(\w+)', (x.get('tokens') or '') + ' '.join(x.get('args') or [])):
                    used.add(v)
        missing = [fl for fl in fields if fl not in used and (fl + 's') not in used and fl.rstrip('s') not in used]
        rep.check(not missing, 'R14.4', 'display-covers-fields|%s' % ty, '%s:%s' % (f, n.get('line')), 'Display of %s reads all of %s' % (ty, fields),
                  'Display of %s never reads the field(s) %s: that part of the description is missing from the rendered text' % (ty, missing))
    # ---- R14.5 / R14.6 (MIR)
    crate = fx.crate('zlink_core', 'full')
    pb = [b for b in crate.bodies if b.path.startswith('idl::parse::') and not b.in_test and b.kind == 'Fn']
    byname = {b.name: b for b in pb}

    def type_parsers_called(b):
        out = set()
        for blk, tm in b.iter_terms('call'):
            d = tm['callee'].get('def') or ''
            if d.startswith('idl::parse::') and crate.by_path.get(d) is not None and 'idl::Type<' in (crate.by_path[d].d.get('ret_ty') or '').replace('r#type::', ''):
                out.add(d.split('::')[-1])
        return out
    top = None
    if 'field' in byname:
        tp = type_parsers_called(byname['field'])
        top = sorted(tp)[0] if len(tp) == 1 else None
    if top is None:
        rep.bad('R14.5', 'anchor-top-type-parser', IDL + '/parse/mod.rs', 'the type parser used for field types was not found')
    else:
        for lit in ('[]', '[string]'):
            users = []
            for b in pb:
                for blk, tm in b.iter_terms('call'):
                    for a in tm['args']:
                        tr = b.trace(a)
                        if tr.get('kind') == 'const' and tr['op'].get('str') == lit:
                            users.append((b, tm))
            ok = False
            det = []
            for b, tm in users:
                called = type_parsers_called(b)
                d = tm['callee'].get('def') or ''
                if d.startswith('idl::parse::') and crate.by_path.get(d) is not None:
                    called |= type_parsers_called(crate.by_path[d])     # helper that receives the prefix
                det.append('%s -> %s' % (b.name, sorted(called)))
                if top in called:
                    ok = True
            rep.check(ok, 'R14.5', 'element-parser|%s' % lit, IDL + '/parse/mod.rs', 'the element of `%s` is parsed by %s, the parser used for field types' % (lit, top),
                      'the element type after `%s` is not parsed by the full type parser `%s` (%s): element types that Display prints (e.g. an optional element `%s?T`) are rejected' % (lit, top, det, lit))
    hashers = set()
    for b in pb:
        refs = False
        for blk, i, s in b.iter_assigns():
            for o in ([s['rv'].get('a'), s['rv'].get('b'), s['rv'].get('op')] + (s['rv'].get('ops') or [])):
                if isinstance(o, dict) and o.get('k') == 'const' and (o.get('val') == 35 and o.get('ty') == 'u8' or o.get('str') == '#' or o.get('bytes') == [35]):
                    refs = True
        for blk, tm in b.iter_terms('call'):
            for a in tm['args']:
                tr = b.trace(a)
                if tr.get('kind') == 'const' and (tr['op'].get('str') == '#' or tr['op'].get('bytes') == [35] or (tr['op'].get('val') == 35 and tr['op'].get('ty') == 'u8')):
                    refs = True
                if tr.get('kind') == 'const' and tr['op'].get('promoted'):
                    m = re.search(r'promoted\[(\d+)\]', tr['op'].get('s', ''))
                    if m and b.d.get('promoted') and int(m.group(1)) < len(b.d['promoted']) and re.search(r"const 35_u8|b\"#\"|const b'#'", ' '.join(b.d['promoted'][int(m.group(1))])):
                        refs = True
        if refs:
            hashers.add(b.name)
    nested = {b.path.split('::')[2] for b in crate.bodies if b.path.startswith('idl::parse::') and not b.in_test and b.kind != 'Fn' and any(
        (o.get('k') == 'const' and o.get('val') == 35 and o.get('ty') == 'u8') for blk, i, s in b.iter_assigns() for o in [s['rv'].get('a'), s['rv'].get('b')] if isinstance(o, dict))}
    hashers |= nested
    rep.check(hashers == {'ws', 'comment_def'}, 'R14.6', 'comment-recognisers', IDL + '/parse/mod.rs',
              'comments are recognised only in %s' % sorted(hashers),
              'the set of parser functions that look for `#` is %s, expected {comment_def, ws}: a comment that is recognised and skipped elsewhere is not attached to '
              'its member and is lost when the description is parsed back' % sorted(hashers))
    # ---- R14.7 a line comment is confined to its line
    check_comment_confined(rep, crate, 'R14.7')
    # ---- R14.9 / R14.10
    check_comment_display(rep, t)
    import c13 as _c13
    _c13.check_no_byte_search(rep, crate, 'full', rule='R14.10')
    _c13.check_member_start_after_comments(rep, crate, 'full', rule='R14.10')
    # ---- R14.8 legal names parse back: the name scanners accept every name of the grammar (imported from C13, R13.7)
    import c13
    c13.check_scanners(rep, crate, 'full', rule='R14.8', prefix='')
    rep.floor('R14.8', 21, 'scanner verdict instances (3 scanners x 7)')
    # ---- R14.15 what Display writes between tokens (blanks, line breaks, `# text` lines) is skipped exactly by the parser's lexical helpers (R13.13)
    rep.rule('R14.15', 'rendered white space and comments parse back: the lexical helpers consume exactly the grammar\'s white space / comments, longest match (rule R13.13 of C13)')
    c13.check_lexical_helpers(rep, crate, 'full', rule='R14.15')
    rep.floor('R14.15', 21, 'lexical helper verdict instances (3 helpers x 7)')
    # ---- R14.13 an empty comment (`#` alone on its line - what an empty `///` line becomes) parses
    rep.rule('R14.13', 'an empty comment parses back: the comment recogniser puts no lower bound on the length of the comment text')
    n13 = 0
    for fn, n, impl in A.all_fns(fx.tpl, IDL + '/parse/'):
        if n['name'] != 'comment_def':
            continue
        n13 += 1
        lower = []
        for x in A.nodes(n.get('body') or []):
            if x.get('k') == 'call' and (x['func'] if isinstance(x['func'], str) else A.text(x['func'])).split('::')[-1] in ('take_while', 'take_till', 'take_until', 'repeat', 'take'):
                a0 = (x.get('args') or [None])[0]
                if a0 is not None and a0.get('k') == 'range' and a0.get('start') and a0['start'].get('text', '0').strip('usize_') not in ('0', ''):
                    lower.append(A.text(x)[:60])
                if a0 is not None and a0.get('k') == 'int' and a0.get('text', '0') not in ('0',):
                    lower.append(A.text(x)[:60])
            if x.get('k') == 'call' and (x['func'] if isinstance(x['func'], str) else A.text(x['func'])).split('::')[-1] in ('take_while1', 'take_till1', 'take_until1', 'not_line_ending1', 'till_line_ending1'):
                lower.append(A.text(x)[:60])
        rep.check(not lower, 'R14.13', 'comment_def|empty-comment-accepted', '%s:%s' % (fn, n.get('line')),
                  'comment_def accepts a `#` that is followed directly by the end of the line',
                  'comment_def requires at least one byte of comment text (%s): a bare `#` line - what Display writes for an empty comment, and what an empty `///` line becomes - is rejected' % '; '.join(lower))
    if not n13:
        rep.bad('R14.13', 'anchor', IDL + '/parse/mod.rs', 'comment_def not found')
    # ---- R14.11 the token strings Display can write (white space between tokens, comment lines before elements) are accepted (imported from C13, R13.11)
    rep.rule('R14.11', 'rendered text parses back at the phrase level: the token language extracted from the parser functions contains every token string the grammar '
             'requires (white space between any two tokens, comment lines before the interface, members, fields and variants) and nothing outside the grammar (rule R13.11 of C13)')
    c13.check_grammar(fx, rep, rule='R14.11')
    rep.floor('R14.11', 4, 'grammar inclusion verdicts (2 productions x 2 directions)')
    rep.rule('R14.14', 'the empty object renders as `()` and parses back as the empty object: the struct production accepts the member-less list and is the first '
             'alternative of its ordered choice that does (rule R13.12 of C13)')
    c13.check_empty_inline(fx, rep, rule='R14.14')
    import imports as _imp
    _imp.layer(fx, rep, 'C14')
    return META
