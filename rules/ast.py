"""Helpers over the zl-tpl syntax trees (every node is a dict with key 'k')."""


def nodes(n):
    """all dict nodes of a tree, depth first, including nested items / impls / fns"""
    if isinstance(n, dict):
        yield n
        for v in n.values():
            if isinstance(v, (dict, list)):
                for x in nodes(v):
                    yield x
    elif isinstance(n, list):
        for x in n:
            for y in nodes(x):
                yield y


def nodes_with_path(n, path=()):
    if isinstance(n, dict):
        yield n, path
        p2 = path + (n,)
        for v in n.values():
            if isinstance(v, (dict, list)):
                for x in nodes_with_path(v, p2):
                    yield x
    elif isinstance(n, list):
        for x in n:
            for y in nodes_with_path(x, path):
                yield y


def all_fns(tpl, file_sub, include_tests=False):
    """(file, fn item, enclosing impl self type or None) for every fn in files matching file_sub, nested ones included"""
    out = []
    for fn, f in tpl.files.items():
        if file_sub not in fn:
            continue
        for it in f['items']:
            for n, path in nodes_with_path(it):
                if n.get('k') == 'fn' and 'body' in n:
                    if not include_tests and (n.get('test') or any(p.get('k') == 'mod' and p.get('name') == 'tests' for p in path) or n.get('mod', '').endswith('tests')):
                        continue
                    impl = [p for p in path if p.get('k') == 'impl']
                    info = impl[-1] if impl else None
                    if n.get('self_ty') or n.get('trait'):
                        info = {'k': 'impl', 'self_ty': n.get('self_ty'), 'trait': n.get('trait')}
                    out.append((fn, n, info))
    return out


def macros(n, names=('quote', 'parse_quote', 'quote_spanned')):
    return [x for x in nodes(n) if x.get('k') == 'macro' and x.get('name') in names]


def text(n):
    """rough source text of an expression node"""
    if n is None:
        return ''
    if isinstance(n, str):
        return n
    k = n.get('k')
    if k == 'path':
        return n.get('text', '')
    if k == 'field':
        return n.get('text') or (text(n.get('base')) + '.' + str(n.get('member')))
    if k == 'str':
        return '"%s"' % n.get('value')
    if k in ('int', 'lit'):
        return n.get('text', '')
    if k == 'bool':
        return 'true' if n.get('value') else 'false'
    if k == 'ref':
        return '&' + text(n.get('expr'))
    if k == 'mcall':
        return '%s.%s(%s)' % (text(n.get('recv')), n.get('method'), ', '.join(text(a) for a in n.get('args') or []))
    if k == 'call':
        return '%s(%s)' % (n.get('func') if isinstance(n.get('func'), str) else text(n.get('func')), ', '.join(text(a) for a in n.get('args') or []))
    if k == 'try':
        return text(n.get('expr')) + '?'
    if k == 'unary':
        return (n.get('op') or '') + text(n.get('expr'))
    if k == 'macro':
        return '%s!(%s)' % (n.get('name'), n.get('tokens', ''))
    return n.get('text') or k or ''


def method_chain(n):
    """for a chain a.b(..).c(..) returns (root node, [method names in call order])"""
    names = []
    cur = n
    while isinstance(cur, dict) and cur.get('k') in ('mcall', 'try', 'ref', 'await'):
        if cur['k'] == 'mcall':
            names.append(cur.get('method'))
            cur = cur.get('recv')
        else:
            cur = cur.get('expr')
    return cur, list(reversed(names))
