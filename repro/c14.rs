// C14: rendering an enum with a commented variant gives text the parser rejects.
use zlink_core::idl::{Comment, CustomEnum, CustomType, EnumVariant, Interface};
#[test]
fn commented_enum_round_trips() {
    let e = CustomEnum::new_owned("Status", vec![EnumVariant::new_owned("active", vec![Comment::new("The active state")]), EnumVariant::new_owned("inactive", vec![])], vec![]);
    let i = Interface::new_owned("org.example.a", vec![], vec![CustomType::from(e)], vec![], vec![]);
    let text = i.to_string();
    let back = Interface::try_from(text.as_str());
    assert!(back.is_ok(), "rendered text is rejected: {:?}\n{}", back.err(), text);
}
#[test]
fn commented_inline_enum_round_trips() {
    use zlink_core::idl::{Field, List, Type, CustomObject};
    let ty = Type::Enum(List::from(vec![EnumVariant::new_owned("red", vec![Comment::new("Primary color")]), EnumVariant::new_owned("green", vec![])]));
    let o = CustomObject::new_owned("Paint", vec![Field::new_owned("color", ty, vec![])], vec![]);
    let i = Interface::new_owned("org.example.a", vec![], vec![CustomType::from(o)], vec![], vec![]);
    let text = i.to_string();
    let back = Interface::try_from(text.as_str());
    assert!(back.is_ok(), "rendered text is rejected: {:?}\n{}", back.err(), text);
}
