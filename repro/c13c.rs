// C13 (R13.7): before fix the IDL parser accepted names outside the Varlink grammar:
//   field `a__b`            (field_name = [A-Za-z]([_]?[A-Za-z0-9])*)
//   interface `org.exa-.mple`, `a-.b` (segment = [A-Za-z0-9]([-]*[A-Za-z0-9])*)
use zlink_core::idl::Interface;
fn main() {
    for t in ["interface org.exa-.mple\nmethod M() -> ()\n", "interface a-.b\nmethod M() -> ()\n", "interface a.b\nmethod M(a__b: int) -> ()\n",
              "interface a--b.c-d\nmethod M(a_b_c: int) -> ()\n"] {
        let r = Interface::try_from(t);
        println!("{:?} -> {}", t, match &r { Ok(i) => format!("OK name={}", i.name()), Err(e) => format!("ERR {e}") });
    }
}
