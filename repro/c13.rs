use zlink_core::idl::Interface;
#[test]
fn no_panic_on_empty_type() {
    let r = std::panic::catch_unwind(|| Interface::try_from("interface org.example.a\nmethod M(a:) -> ()").is_err());
    assert_eq!(r.ok(), Some(true));
}
#[test]
fn truncated_last_error_member_rejected() {
    let full = "interface org.example.a\nmethod M() -> ()\nerror Foo (a: int, b: string)";
    let start = full.find("error").unwrap();
    assert!(Interface::try_from(full).is_ok());
    for cut in start+6..full.len() {
        assert!(Interface::try_from(&full[..cut]).is_err(), "accepted {:?}", &full[..cut]);
    }
    // trailing comments stay legal
    assert!(Interface::try_from("interface org.example.a\nmethod M() -> ()\n# bye\n").is_ok());
}
