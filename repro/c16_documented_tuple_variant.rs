#![cfg(feature = "introspection")]
use zlink::introspect::{ReplyError, Type};

#[derive(Type)]
#[allow(dead_code)]
struct Details {
    code: i64,
}

#[derive(ReplyError)]
#[allow(dead_code)]
enum MyError {
    /// Named variants with docs work.
    Named { code: i64 },
    /// A documented single-tuple variant.
    Wrapped(Details),
}

#[test]
fn documented_tuple_variant_is_described() {
    let v = MyError::VARIANTS;
    assert_eq!(v.len(), 2);
    assert_eq!(v[1].name(), "Wrapped");
    assert_eq!(v[1].comments().count(), 1);
}
