use futures_util::StreamExt;
use zlink_smol::notified::State;

#[test]
fn set_without_subscriber_then_subscribe() {
    smol::block_on(async {
        let mut st: State<u32, u32> = State::new(0);
        st.set(1).await; // no subscriber yet
        let mut s = st.stream();
        st.set(2).await;
        let r = s.next().await.unwrap();
        assert_eq!(r.parameters(), Some(&2));
    });
}
