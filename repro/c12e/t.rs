// C12 (R12.9): errors built for bad #[zlink(..)] attribute lists were swallowed: the trait was accepted and the whole list ignored.
use zlink_core::{proxy, test_utils::mock_socket::MockSocket, Connection};
use serde::{Serialize, Deserialize};
#[derive(Debug, Serialize, Deserialize)] struct Out { x: u32 }
#[derive(Debug, zlink_core::ReplyError)]
#[zlink(interface = "org.example", crate = "zlink_core")]
enum Er { Bad }
#[proxy(interface = "org.example", crate = "zlink_core")]
trait P {
    // `typo` is not a zlink attribute: the processor builds "unknown zlink attribute" ... and the error is dropped together with the rename
    #[zlink(rename = "TheRealName", typo)]
    async fn get_it(&mut self, name: &str) -> zlink_core::Result<Result<Out, Er>>;
}
fn sent<S: zlink_core::connection::Socket<WriteHalf = zlink_core::test_utils::mock_socket::MockWriteHalf>>(c: &Connection<S>) -> String {
    String::from_utf8(c.write().write_half().written_data().to_vec()).unwrap()
}
#[tokio::test(flavor="current_thread")]
async fn rename_next_to_rejected_item() {
    let r = r#"{"parameters":{"x":1}}"#;
    let mut c = Connection::new(MockSocket::new(&[r]));
    c.get_it("n").await.unwrap().unwrap();
    let s = sent(&c);
    println!("{s}");
    assert!(s.contains("org.example.TheRealName"), "sent {s}");
}
