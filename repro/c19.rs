// C19: a send abandoned after a partial write is later re-sent from the start: the peer sees a corrupted frame.
use serde::{Deserialize, Serialize};
use std::time::Duration;
#[derive(Debug, Serialize, Deserialize, PartialEq)]
struct Msg { id: u32, blob: String }

#[tokio::test(flavor = "current_thread")]
async fn tokio_abandoned_send_does_not_corrupt() {
    let (a, b) = tokio::net::UnixStream::pair().unwrap();
    let mut tx = zlink_core::Connection::new(zlink_tokio::unix::Stream::from(a));
    let mut rx = zlink_core::Connection::new(zlink_tokio::unix::Stream::from(b));
    let big = Msg { id: 1, blob: "x".repeat(400 * 1024) };
    let call = zlink_core::Call::new(&big);
    // the peer is not reading: the kernel buffer fills, the write is partial, the send is abandoned
    let r = tokio::time::timeout(Duration::from_millis(200), tx.send_call(&call)).await;
    assert!(r.is_err(), "send should have been abandoned by the timeout");
    // now the peer reads while we send a small message
    let small = Msg { id: 2, blob: "y".into() };
    let reader = async {
        let mut seen = Vec::new();
        loop {
            match rx.receive_call::<Msg>().await {
                Ok(c) => { let id = c.method().id; seen.push(Ok(id)); if id == 2 { break; } }
                Err(e) => { seen.push(Err(format!("{e:?}").chars().take(60).collect::<String>())); break; }
            }
        }
        seen
    };
    let call2 = zlink_core::Call::new(&small);
    let (seen, s) = tokio::join!(reader, tx.send_call(&call2));
    s.unwrap();
    // whole frames only, each at most once: either [2] or [1, 2]
    assert!(seen == vec![Ok(2)] || seen == vec![Ok(1), Ok(2)], "peer saw {:?}", seen);
}

#[test]
fn smol_abandoned_send_does_not_corrupt() {
    smol::block_on(async {
        let (a, b) = std::os::unix::net::UnixStream::pair().unwrap();
        let mut tx = zlink_core::Connection::new(zlink_smol::unix::Stream::from(async_io::Async::new(a).unwrap()));
        let mut rx = zlink_core::Connection::new(zlink_smol::unix::Stream::from(async_io::Async::new(b).unwrap()));
        let big = Msg { id: 1, blob: "x".repeat(400 * 1024) };
        let call = zlink_core::Call::new(&big);
        let r = futures_lite::future::or(async { tx.send_call(&call).await.map(|_| true) },
                                         async { async_io::Timer::after(Duration::from_millis(200)).await; Ok(false) }).await.unwrap();
        assert!(!r, "send should have been abandoned by the timeout");
        let small = Msg { id: 2, blob: "y".into() };
        let reader = async {
            let mut seen = Vec::new();
            loop {
                match rx.receive_call::<Msg>().await {
                    Ok(c) => { let id = c.method().id; seen.push(Ok(id)); if id == 2 { break; } }
                    Err(e) => { seen.push(Err(format!("{e:?}").chars().take(60).collect::<String>())); break; }
                }
            }
            seen
        };
        let call2 = zlink_core::Call::new(&small);
        let (seen, s) = futures_lite::future::zip(reader, tx.send_call(&call2)).await;
        s.unwrap();
        assert!(seen == vec![Ok(2)] || seen == vec![Ok(1), Ok(2)], "peer saw {:?}", seen);
    });
}
