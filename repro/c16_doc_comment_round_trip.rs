// C16 / C14: a description derived from a type documented with ordinary `///` comments does not survive
// render -> parse: rustdoc turns `/// The id.` into #[doc = " The id."], the derive keeps the leading blank,
// Display writes `#  The id.` and the parser (which skips all blanks after `#`) reads back "The id.".
// Place as zlink/tests/repro_c16_doc.rs and run:
//   cargo test -p zlink --features introspection,idl-parse --offline --test repro_c16_doc
#![cfg(all(feature = "introspection", feature = "idl-parse"))]
use zlink::{
    idl::{CustomType, Interface},
    introspect::CustomType as _,
};

/// A user.
#[derive(zlink::introspect::CustomType)]
#[allow(dead_code)]
struct User {
    /// The id.
    id: u64,
    ///   Indented on purpose.
    name: String,
}

#[test]
fn derived_doc_comments_round_trip() {
    let ty: &'static CustomType<'static> = User::CUSTOM_TYPE;
    let types = [ty];
    let iface = Interface::new("org.example.users", &[], &types, &[], &[]);
    let text = iface.to_string();
    let parsed = Interface::try_from(text.as_str()).expect("rendered text parses");
    assert_eq!(parsed, iface, "parse(render(d)) != d\n--- text ---\n{text}");
    assert_eq!(parsed.to_string(), text);
}
