// C13 (R13.9): before fix ea9a53b, an inline enum holding a comment with a colon was taken for a struct and the legal text rejected.
use zlink_core::idl::Interface;
fn main() {
    for t in ["interface a.b\nmethod M(e: (\n# see: y\nfoo, bar)) -> ()\n", "interface a.b\nmethod M(e: (\n# see y\nfoo, bar)) -> ()\n"] {
        let r = Interface::try_from(t);
        println!("{:?} -> {}", t, match &r { Ok(i) => format!("OK {}", i.to_string().replace('\n', " | ")), Err(e) => format!("ERR {e}") });
    }
}
