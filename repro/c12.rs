use zlink_core::{proxy, test_utils::mock_socket::MockSocket, Connection};
use serde::{Serialize, Deserialize};
use futures_util::{pin_mut, StreamExt};
#[derive(Debug, Serialize, Deserialize)] struct Out { x: u32 }
#[derive(Debug, zlink_core::ReplyError)]
#[zlink(interface = "org.example", crate = "zlink_core")]
enum Er { Bad }
#[proxy(interface = "org.example", crate = "zlink_core")]
trait P {
    async fn get_it(&mut self, #[zlink(rename = "theName")] name: &str, opt: Option<u32>) -> zlink_core::Result<Result<Out, Er>>;
    #[zlink(more)]
    async fn watch(&mut self, #[zlink(rename = "theName")] name: &str) -> zlink_core::Result<impl futures_util::Stream<Item = zlink_core::Result<Result<Out, Er>>>>;
}
fn sent<S: zlink_core::connection::Socket<WriteHalf = zlink_core::test_utils::mock_socket::MockWriteHalf>>(c: &Connection<S>) -> String {
    String::from_utf8(c.write().write_half().written_data().to_vec()).unwrap()
}
#[tokio::test(flavor="current_thread")]
async fn chain_same_wire_as_plain() {
    let r = r#"{"parameters":{"x":1}}"#;
    let mut c = Connection::new(MockSocket::new(&[r]));
    c.get_it("n", None).await.unwrap().unwrap();
    let plain = sent(&c);
    let mut c = Connection::new(MockSocket::new(&[r, r]));
    {
        let s = c.chain_get_it::<Out, Er>("n", None).unwrap().get_it("n", None).unwrap().send().await.unwrap();
        pin_mut!(s);
        s.next().await.unwrap().unwrap().unwrap();
    }
    let chained = sent(&c);
    assert_eq!(chained, format!("{plain}{plain}"));
    // more
    let r2 = r#"{"parameters":{"x":1}}"#;
    let mut c = Connection::new(MockSocket::new(&[r2]));
    { let s = c.watch("n").await.unwrap(); pin_mut!(s); s.next().await.unwrap().unwrap().unwrap(); }
    let plain = sent(&c);
    let mut c = Connection::new(MockSocket::new(&[r2]));
    { let s = c.chain_watch::<Out, Er>("n").unwrap().send().await.unwrap(); pin_mut!(s); s.next().await.unwrap().unwrap().unwrap(); }
    assert_eq!(sent(&c), plain);
}
