use repro15::g::*;
use zlink::{test_utils::mock_socket::MockSocket, Connection};
#[tokio::test(flavor="current_thread")]
async fn wire_names() {
    let replies = [r#"{"parameters":{"yield":"y","crate":3}}"#, r#"{"error":"org.example.names.NotOK","parameters":{"try":7}}"#, r#"{"parameters":{"rec":{"type":"t","final":1,"self":true}}}"#];
    let mut c = Connection::new(MockSocket::new(&replies));
    let out = c.get_url(&Proto::IPv6, 5).await.unwrap().unwrap();
    assert_eq!(out.r#yield, "y"); assert_eq!(out.crate_, 3);
    let e = c.r#type(9).await.unwrap().unwrap_err();
    assert_eq!(e, NamesError::NotOK { r#try: 7 });
    let r = c.r#final().await.unwrap().unwrap();
    assert_eq!(r.rec.r#type, "t");
    let s = String::from_utf8(c.write().write_half().written_data().to_vec()).unwrap();
    let calls: Vec<&str> = s.split('\0').collect();
    assert_eq!(calls[0], r#"{"method":"org.example.names.GetURL","parameters":{"box":"IPv6","self":5}}"#);
    assert_eq!(calls[1], r#"{"method":"org.example.names.Type","parameters":{"move":9}}"#);
    assert_eq!(calls[2], r#"{"method":"org.example.names.Final"}"#);
    assert_eq!(serde_json::to_string(&Proto::Final).unwrap(), "\"final\"");
    assert_eq!(serde_json::to_string(&Proto::Self_).unwrap(), "\"self\"");
}
