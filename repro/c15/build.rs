use std::{env, fs, path::PathBuf};
fn main() {
    let content = fs::read_to_string("names.idl").unwrap();
    println!("cargo:rerun-if-changed=names.idl");
    let interface: zlink::idl::Interface = content.as_str().try_into().expect("parse");
    let dummy: zlink::idl::Interface = "interface org.example.dummy\nmethod A() -> ()".try_into().unwrap();
    let code = zlink_codegen::generate_interfaces(&[interface, dummy]).expect("gen");
    let out = PathBuf::from(env::var("OUT_DIR").unwrap()).join("generated.rs");
    fs::write(&out, code).unwrap();
}
