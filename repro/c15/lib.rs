pub mod g { include!(concat!(env!("OUT_DIR"), "/generated.rs")); }
