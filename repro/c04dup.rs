// C04: duplicate `error` member
use zlink_core::{test_utils::mock_socket::MockSocket, Connection};
use serde::{Serialize, Deserialize};
#[derive(Debug, Serialize, Deserialize)] struct AllOpt { x: Option<u32> }
#[derive(Debug, zlink_core::ReplyError)]
#[zlink(interface = "org.example", crate = "zlink_core")]
enum Er { Bad }
#[tokio::test(flavor="current_thread")]
async fn dup() {
    for r in [r#"{"error":"io.systemd.System","error":"x"}"#, r#"{"error":"io.systemd.System"}"#, r#"{"error":"org.example.Bad","error":"org.example.Bad"}"#, r#"{"error":"io.systemd.System","parameters":{},"error":"io.x.Y"}"#] {
        let mut c = Connection::new(MockSocket::new(&[r]));
        let res = c.read_mut().receive_reply::<AllOpt, Er>().await;
        println!("{r} -> {res:?}");
        let mut c = Connection::new(MockSocket::new(&[r]));
        let res = c.read_mut().receive_reply::<(), Er>().await;
        println!("{r} -> unit {res:?}");
    }
}
