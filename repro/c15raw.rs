use zlink_core::ReplyError;
#[derive(Debug, PartialEq, ReplyError)]
#[zlink(interface = "x", crate = "zlink_core")]
enum E { Bad { r#type: String, r#match: u32 } }
#[test] fn raw_ident_fields_use_plain_wire_names() {
    let e = E::Bad { r#type: "a".into(), r#match: 1 };
    let s = serde_json::to_string(&e).unwrap();
    assert_eq!(s, r#"{"error":"x.Bad","parameters":{"type":"a","match":1}}"#);
    let d: E = serde_json::from_str(r#"{"error":"x.Bad","parameters":{"type":"a","match":1}}"#).unwrap();
    assert_eq!(d, e);
}
