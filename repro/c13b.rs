use zlink_core::idl::Interface;
#[test] fn names_cannot_end_with_a_separator() {
    for t in ["interface org.example.\n\nmethod A() -> ()\n", "interface org.example-\n\nmethod A() -> ()\n", "interface org.example.a\n\nmethod A(x_: int) -> ()\n"] {
        let r = Interface::try_from(t);
        assert!(r.is_err(), "accepted {t:?}: {:?}", r.map(|i| i.name().to_string()));
    }
    assert!(Interface::try_from("interface org.ex-ample.a1\n\nmethod A(x_y: int) -> ()\n").is_ok());
}
