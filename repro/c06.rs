use serde::{Deserialize, Serialize};
use zlink_core::{test_utils::mock_socket::MockSocket, Connection, Call};
use futures_util::{pin_mut, StreamExt};
#[derive(Debug, Serialize, Deserialize)] struct G { id: u32 }
#[derive(Debug, Serialize, Deserialize)] struct E { code: u32 }
#[tokio::test(flavor="current_thread")]
async fn all_oneway_chain_yields_nothing() {
    let mut c = Connection::new(MockSocket::new(&[r#"{"parameters":{"id":7}}"#]));
    let a = Call::new(G{id:1}).set_oneway(true);
    {
        let s = c.chain_call::<G,G,E>(&a).unwrap().append(&a).unwrap().send().await.unwrap();
        pin_mut!(s);
        assert!(s.next().await.is_none());
    }
    let r = c.receive_reply::<G,E>().await.unwrap().unwrap();
    assert_eq!(r.parameters().unwrap().id, 7);
}
