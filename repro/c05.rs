// C05: "no parameters" written as `"parameters":{}` (as systemd does) must be recognised.
use zlink_core::{varlink_service, ReplyError, Call, test_utils::mock_socket::MockSocket, Connection};
#[derive(Debug, PartialEq, ReplyError)]
#[zlink(interface = "x", crate = "zlink_core")]
enum E { Y, Z { a: u32 } }

#[test]
fn standard_method_with_empty_parameters() {
    let r: Result<Call<varlink_service::Method<'_>>, _> = serde_json::from_str(r#"{"method":"org.varlink.service.GetInfo","parameters":{}}"#);
    assert!(r.is_ok(), "{:?}", r.err());
}
#[test]
fn standard_error_with_empty_parameters() {
    let r: Result<varlink_service::Error, _> = serde_json::from_str(r#"{"error":"org.varlink.service.PermissionDenied","parameters":{}}"#);
    assert!(r.is_ok(), "{:?}", r.err());
}
#[test]
fn derived_unit_variant_with_empty_parameters() {
    let r: Result<E, _> = serde_json::from_str(r#"{"error":"x.Y","parameters":{}}"#);
    assert!(r.is_ok(), "{:?}", r.err());
}
#[tokio::test(flavor = "current_thread")]
async fn unit_output_with_empty_parameters() {
    let mut c = Connection::new(MockSocket::new(&[r#"{"parameters":{}}"#]));
    let r = c.receive_reply::<(), E>().await;
    assert!(matches!(r, Ok(Ok(_))), "{:?}", r);
}
