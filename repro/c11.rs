// C11: a borrowed &str from reply k is overwritten when reply k+1 arrives in a separate read.
use serde::{Deserialize, Serialize};
use zlink_core::{connection::socket::{ReadHalf, WriteHalf, Socket}, Connection, Call};
use futures_util::{pin_mut, StreamExt};
#[derive(Debug)] struct S { frames: Vec<Vec<u8>> }
#[derive(Debug)] struct R { frames: Vec<Vec<u8>>, i: usize }
#[derive(Debug)] struct W;
impl Socket for S { type ReadHalf = R; type WriteHalf = W; fn split(self) -> (R, W) { (R { frames: self.frames, i: 0 }, W) } }
impl ReadHalf for R { async fn read(&mut self, buf: &mut [u8]) -> zlink_core::Result<usize> {
    if self.i >= self.frames.len() { return Ok(0); }
    let f = &self.frames[self.i]; self.i += 1; buf[..f.len()].copy_from_slice(f); Ok(f.len()) } }
impl WriteHalf for W { async fn write(&mut self, _b: &[u8]) -> zlink_core::Result<()> { Ok(()) } }
#[derive(Debug, Serialize, Deserialize)] struct G { id: u32 }
#[derive(Debug, Deserialize)] struct User<'a> { name: &'a str }
#[derive(Debug, Deserialize)] struct E { #[allow(dead_code)] code: u32 }
#[tokio::test(flavor="current_thread")]
async fn earlier_item_keeps_its_content() {
    let f = |s: &str| { let mut v = s.as_bytes().to_vec(); v.push(0); v };
    let mut c = Connection::new(S { frames: vec![f(r#"{"parameters":{"name":"alice"}}"#), f(r#"{"parameters":{"name":"barth"}}"#)] });
    let a = Call::new(G{id:1});
    let s = c.chain_call::<G,User<'_>,E>(&a).unwrap().append(&a).unwrap().send().await.unwrap();
    pin_mut!(s);
    let first = s.next().await.unwrap().unwrap().unwrap();
    let name1: &str = first.parameters().unwrap().name;
    assert_eq!(name1, "alice");
    let _second = s.next().await.unwrap().unwrap().unwrap();
    assert_eq!(name1, "alice", "content of an already yielded reply changed");
}
