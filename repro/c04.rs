use serde::Deserialize;
use zlink_core::{test_utils::mock_socket::MockSocket, Connection, ReplyError};

#[derive(Debug, Deserialize)]
struct Strict { #[allow(dead_code)] a: u32 }
#[derive(Debug, ReplyError)]
#[zlink(interface = "org.example", crate = "zlink_core")]
enum MyErr { Bad { code: i64 }, Worse }

#[tokio::test(flavor="current_thread")]
async fn unknown_error_not_success() {
    let frames = [r#"{"error":"io.systemd.System"}"#, r#"{"error":"io.systemd.System"}"#, r#"{"error":"io.systemd.System","parameters":{"errno":5}}"#,
      r#"{"error":"org.example.Bad","parameters":{"code":"x"}}"#, r#"{"error":"org.example.Bad","parameters":{"code":3}}"#,
      r#"{"error":"org.example.Worse"}"#, r#"{"error":"org.varlink.service.MethodNotFound","parameters":{"method":"x"}}"#,
      r#"{"parameters":{"a":1}}"#, r#"{}"#, r#"{"continues":true}"#];
    let mut c = Connection::new(MockSocket::new(&frames));
    assert!(c.receive_reply::<(), MyErr>().await.is_err());
    assert!(c.receive_reply::<serde_json::Value, MyErr>().await.is_err());
    assert!(c.receive_reply::<Strict, MyErr>().await.is_err());
    assert!(c.receive_reply::<serde_json::Value, MyErr>().await.is_err());
    assert!(matches!(c.receive_reply::<serde_json::Value, MyErr>().await, Ok(Err(MyErr::Bad{code:3}))));
    assert!(matches!(c.receive_reply::<serde_json::Value, MyErr>().await, Ok(Err(MyErr::Worse))));
    assert!(matches!(c.receive_reply::<serde_json::Value, MyErr>().await, Err(zlink_core::Error::VarlinkService(_))));
    assert!(matches!(c.receive_reply::<Strict, MyErr>().await, Ok(Ok(_))));
    assert!(matches!(c.receive_reply::<(), MyErr>().await, Ok(Ok(_))));
    assert!(matches!(c.receive_reply::<(), MyErr>().await, Ok(Ok(_))));
}
