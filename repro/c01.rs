use serde::{Deserialize, Serialize};
use zlink_core::{connection::Socket, test_utils::mock_socket::MockSocket, Connection};

#[derive(Debug, Serialize, Deserialize, PartialEq)]
#[serde(tag = "method", content = "parameters")]
enum M { #[serde(rename="org.example.Test")] Test { value: u32 } }

#[tokio::test(flavor="current_thread")]
async fn bad_frame_then_good() {
    let good = r#"{"method":"org.example.Test","parameters":{"value":42}}"#;
    let sock = MockSocket::new(&["{\"method\":\"nope\" garbage garbage", good, good]);
    let mut c = Connection::new(sock);
    assert!(c.receive_call::<M>().await.is_err());
    assert_eq!(c.receive_call::<M>().await.unwrap().method(), &M::Test{value:42});
    assert_eq!(c.receive_call::<M>().await.unwrap().method(), &M::Test{value:42});
}
#[tokio::test(flavor="current_thread")]
async fn ws_padded() {
    let good = r#" {"method":"org.example.Test","parameters":{"value":42}} "#;
    let sock = MockSocket::new(&[good, good]);
    let mut c = Connection::new(sock);
    assert_eq!(c.receive_call::<M>().await.unwrap().method(), &M::Test{value:42});
    assert_eq!(c.receive_call::<M>().await.unwrap().method(), &M::Test{value:42});
}
