use zlink_core::{proxy, test_utils::mock_socket::MockSocket, Connection};
use serde::{Serialize, Deserialize};
#[derive(Debug, Serialize, Deserialize)] struct Out { x: u32 }
#[derive(Debug, zlink_core::ReplyError)]
#[zlink(interface = "org.example", crate = "zlink_core")]
enum Er { Bad }
#[proxy(interface = "org.example", crate = "zlink_core")]
trait P {
    async fn r#type(&mut self, r#move: u32) -> zlink_core::Result<Result<Out, Er>>;
}
#[tokio::test(flavor="current_thread")]
async fn raw() {
    let r = r#"{"parameters":{"x":1}}"#;
    let mut c = Connection::new(MockSocket::new(&[r]));
    c.r#type(1).await.unwrap().unwrap();
    let s = String::from_utf8(c.write().write_half().written_data().to_vec()).unwrap();
    assert_eq!(s, "{\"method\":\"org.example.Type\",\"parameters\":{\"move\":1}}\0");
}
