//! zl-tpl: syntax-tree extractor (syn) for the code generators and renderers of zlink.
//!
//! Usage: zl-tpl <repo-root> <out.json> <rel-dir-or-file>...
//!
//! For every Rust source file it emits the items (fns with a compact expression tree that keeps
//! control structure, macro invocations with their token text / format string, calls, string
//! literals; structs/enums with their attributes; consts; macro_rules) as JSON.  The python
//! rules interpret the tree; this tool decides nothing.

use proc_macro2::{Span, TokenStream, TokenTree};
use quote::ToTokens;
use std::fmt::Write as _;
use syn::spanned::Spanned;

// ---------------------------------------------------------------------------------------------
// JSON

#[derive(Clone, Debug)]
enum J {
    Null,
    Bool(bool),
    Num(i64),
    Str(String),
    Arr(Vec<J>),
    Obj(Vec<(&'static str, J)>),
}

fn s(x: impl Into<String>) -> J {
    J::Str(x.into())
}

fn esc(x: &str, out: &mut String) {
    out.push('"');
    for c in x.chars() {
        match c {
            '"' => out.push_str("\\\""),
            '\\' => out.push_str("\\\\"),
            '\n' => out.push_str("\\n"),
            '\r' => out.push_str("\\r"),
            '\t' => out.push_str("\\t"),
            c if (c as u32) < 0x20 => {
                let _ = write!(out, "\\u{:04x}", c as u32);
            }
            c => out.push(c),
        }
    }
    out.push('"');
}

impl J {
    fn write(&self, out: &mut String) {
        match self {
            J::Null => out.push_str("null"),
            J::Bool(b) => out.push_str(if *b { "true" } else { "false" }),
            J::Num(n) => {
                let _ = write!(out, "{}", n);
            }
            J::Str(x) => esc(x, out),
            J::Arr(v) => {
                out.push('[');
                for (i, x) in v.iter().enumerate() {
                    if i > 0 {
                        out.push(',');
                    }
                    x.write(out);
                }
                out.push(']');
            }
            J::Obj(v) => {
                out.push('{');
                let mut first = true;
                for (k, x) in v {
                    if matches!(x, J::Null) {
                        continue;
                    }
                    if !first {
                        out.push(',');
                    }
                    first = false;
                    esc(k, out);
                    out.push(':');
                    x.write(out);
                }
                out.push('}');
            }
        }
    }
}

fn line(sp: Span) -> J {
    J::Num(sp.start().line as i64)
}

fn txt<T: ToTokens>(t: &T) -> String {
    t.to_token_stream().to_string()
}

// ---------------------------------------------------------------------------------------------
// macros

/// Split a macro's token stream at top-level commas.
fn split_commas(ts: TokenStream) -> Vec<TokenStream> {
    let mut out = Vec::new();
    let mut cur = TokenStream::new();
    for tt in ts {
        match &tt {
            TokenTree::Punct(p) if p.as_char() == ',' => {
                out.push(std::mem::take(&mut cur));
            }
            _ => cur.extend(std::iter::once(tt)),
        }
    }
    if !cur.is_empty() {
        out.push(cur);
    }
    out
}

fn lit_str_of(ts: &TokenStream) -> Option<String> {
    syn::parse2::<syn::LitStr>(ts.clone()).ok().map(|l| l.value())
}

/// `#ident`, `#(#ident)*` interpolations of a quote! template, in order.
fn quote_vars(ts: TokenStream, out: &mut Vec<String>) {
    let mut it = ts.into_iter().peekable();
    while let Some(tt) = it.next() {
        match tt {
            TokenTree::Punct(p) if p.as_char() == '#' => {
                if let Some(TokenTree::Ident(id)) = it.peek() {
                    out.push(id.to_string());
                    it.next();
                } else if let Some(TokenTree::Group(g)) = it.peek() {
                    if g.delimiter() == proc_macro2::Delimiter::Parenthesis {
                        quote_vars(g.stream(), out);
                        it.next();
                    }
                }
            }
            TokenTree::Group(g) => quote_vars(g.stream(), out),
            _ => {}
        }
    }
}

fn macro_node(m: &syn::Macro, cx: &mut Cx) -> J {
    let name = m.path.segments.last().map(|x| x.ident.to_string()).unwrap_or_default();
    let mut f: Vec<(&'static str, J)> = vec![
        ("k", s("macro")),
        ("name", s(name.clone())),
        ("path", s(txt(&m.path).replace(' ', ""))),
        ("line", line(m.span())),
        ("tokens", s(m.tokens.to_string())),
    ];
    match name.as_str() {
        "quote" | "parse_quote" | "quote_spanned" | "format_ident" => {
            let mut vars = Vec::new();
            quote_vars(m.tokens.clone(), &mut vars);
            f.push(("vars", J::Arr(vars.into_iter().map(s).collect())));
        }
        "format" | "write" | "writeln" | "print" | "println" | "panic" | "format_args" | "eprintln" => {
            let parts = split_commas(m.tokens.clone());
            let skip = if name == "write" || name == "writeln" { 1 } else { 0 };
            if name == "write" || name == "writeln" {
                if let Some(p) = parts.first() {
                    f.push(("dst", s(p.to_string())));
                }
            }
            if let Some(p) = parts.get(skip) {
                if let Some(v) = lit_str_of(p) {
                    f.push(("fmt", s(v)));
                }
            } else if name == "writeln" {
                f.push(("fmt", s("")));
            }
            let mut args = Vec::new();
            let mut arg_nodes = Vec::new();
            for p in parts.iter().skip(skip + 1) {
                args.push(s(p.to_string()));
                if let Ok(e) = syn::parse2::<syn::Expr>(p.clone()) {
                    arg_nodes.push(cx.expr(&e));
                }
            }
            f.push(("args", J::Arr(args)));
            f.push(("arg_nodes", J::Arr(arg_nodes)));
        }
        "vec" | "matches" | "assert" | "assert_eq" | "debug_assert" | "ready" | "pin_mut" | "tri" => {
            let mut nodes = Vec::new();
            for p in split_commas(m.tokens.clone()) {
                if let Ok(e) = syn::parse2::<syn::Expr>(p.clone()) {
                    nodes.push(cx.expr(&e));
                }
            }
            f.push(("arg_nodes", J::Arr(nodes)));
        }
        _ => {}
    }
    J::Obj(f)
}

// ---------------------------------------------------------------------------------------------
// expression tree

struct Cx;

impl Cx {
    fn block(&mut self, b: &syn::Block) -> J {
        J::Arr(b.stmts.iter().map(|st| self.stmt(st)).collect())
    }

    fn stmt(&mut self, st: &syn::Stmt) -> J {
        match st {
            syn::Stmt::Local(l) => {
                let mut f = vec![("k", s("let")), ("pat", s(txt(&l.pat))), ("line", line(l.span()))];
                if let Some(init) = &l.init {
                    f.push(("init", self.expr(&init.expr)));
                    if let Some((_, d)) = &init.diverge {
                        f.push(("else", self.expr(d)));
                    }
                }
                J::Obj(f)
            }
            syn::Stmt::Item(it) => {
                let mut v = Vec::new();
                item(it, "", self, &mut v);
                J::Obj(vec![("k", s("items")), ("items", J::Arr(v))])
            }
            syn::Stmt::Expr(e, semi) => {
                let n = self.expr(e);
                if semi.is_none() {
                    J::Obj(vec![("k", s("tail")), ("expr", n)])
                } else {
                    n
                }
            }
            syn::Stmt::Macro(m) => macro_node(&m.mac, self),
        }
    }

    fn exprs<'a>(&mut self, it: impl Iterator<Item = &'a syn::Expr>) -> J {
        J::Arr(it.map(|e| self.expr(e)).collect())
    }

    fn expr(&mut self, e: &syn::Expr) -> J {
        use syn::Expr::*;
        let ln = line(e.span());
        match e {
            If(x) => {
                let mut f = vec![
                    ("k", s("if")),
                    ("line", ln),
                    ("cond", s(txt(&x.cond))),
                    ("cond_node", self.expr(&x.cond)),
                    ("then", self.block(&x.then_branch)),
                ];
                if let Some((_, eb)) = &x.else_branch {
                    f.push(("else", J::Arr(vec![self.expr(eb)])));
                }
                J::Obj(f)
            }
            Let(x) => J::Obj(vec![
                ("k", s("letcond")),
                ("line", ln),
                ("pat", s(txt(&x.pat))),
                ("expr", self.expr(&x.expr)),
            ]),
            Match(x) => {
                let arms: Vec<J> = x
                    .arms
                    .iter()
                    .map(|a| {
                        let mut f = vec![("pat", s(txt(&a.pat))), ("line", line(a.span())), ("body", self.expr(&a.body))];
                        if let Some((_, g)) = &a.guard {
                            f.push(("guard", s(txt(g))));
                        }
                        // string literals appearing in the pattern
                        let mut lits = Vec::new();
                        collect_pat_lits(&a.pat, &mut lits);
                        if !lits.is_empty() {
                            f.push(("lits", J::Arr(lits.into_iter().map(s).collect())));
                        }
                        J::Obj(f)
                    })
                    .collect();
                J::Obj(vec![
                    ("k", s("match")),
                    ("line", ln),
                    ("scrut", s(txt(&x.expr))),
                    ("scrut_node", self.expr(&x.expr)),
                    ("arms", J::Arr(arms)),
                ])
            }
            ForLoop(x) => J::Obj(vec![
                ("k", s("for")),
                ("line", ln),
                ("pat", s(txt(&x.pat))),
                ("iter", s(txt(&x.expr))),
                ("iter_node", self.expr(&x.expr)),
                ("body", self.block(&x.body)),
            ]),
            While(x) => J::Obj(vec![
                ("k", s("while")),
                ("line", ln),
                ("cond", s(txt(&x.cond))),
                ("cond_node", self.expr(&x.cond)),
                ("body", self.block(&x.body)),
            ]),
            Loop(x) => J::Obj(vec![("k", s("loop")), ("line", ln), ("body", self.block(&x.body))]),
            Block(x) => J::Obj(vec![("k", s("block")), ("line", ln), ("body", self.block(&x.block))]),
            Unsafe(x) => J::Obj(vec![("k", s("unsafe")), ("line", ln), ("body", self.block(&x.block))]),
            Async(x) => J::Obj(vec![("k", s("async")), ("line", ln), ("body", self.block(&x.block))]),
            Closure(x) => J::Obj(vec![
                ("k", s("closure")),
                ("line", ln),
                ("params", s(x.inputs.iter().map(|p| txt(p)).collect::<Vec<_>>().join(", "))),
                ("body", J::Arr(vec![self.expr(&x.body)])),
            ]),
            Macro(x) => macro_node(&x.mac, self),
            Call(x) => J::Obj(vec![
                ("k", s("call")),
                ("line", ln),
                ("func", s(txt(&x.func).replace(' ', ""))),
                ("args", self.exprs(x.args.iter())),
            ]),
            MethodCall(x) => J::Obj(vec![
                ("k", s("mcall")),
                ("line", ln),
                ("method", s(x.method.to_string())),
                ("recv", self.expr(&x.receiver)),
                ("args", self.exprs(x.args.iter())),
            ]),
            Struct(x) => {
                let fields: Vec<J> = x
                    .fields
                    .iter()
                    .map(|fv| J::Obj(vec![("name", s(txt(&fv.member))), ("value", self.expr(&fv.expr))]))
                    .collect();
                let mut f = vec![
                    ("k", s("struct")),
                    ("line", ln),
                    ("path", s(txt(&x.path).replace(' ', ""))),
                    ("fields", J::Arr(fields)),
                ];
                if let Some(r) = &x.rest {
                    f.push(("rest", self.expr(r)));
                }
                J::Obj(f)
            }
            Lit(x) => match &x.lit {
                syn::Lit::Str(l) => J::Obj(vec![("k", s("str")), ("line", ln), ("value", s(l.value()))]),
                syn::Lit::ByteStr(l) => J::Obj(vec![
                    ("k", s("bytes")),
                    ("line", ln),
                    ("value", s(String::from_utf8_lossy(&l.value()).to_string())),
                ]),
                syn::Lit::Bool(l) => J::Obj(vec![("k", s("bool")), ("line", ln), ("value", J::Bool(l.value))]),
                syn::Lit::Int(l) => J::Obj(vec![("k", s("int")), ("line", ln), ("text", s(l.to_string()))]),
                syn::Lit::Byte(l) => J::Obj(vec![("k", s("byte")), ("line", ln), ("value", J::Num(l.value() as i64))]),
                syn::Lit::Char(l) => J::Obj(vec![("k", s("char")), ("line", ln), ("value", s(l.value().to_string()))]),
                other => J::Obj(vec![("k", s("lit")), ("line", ln), ("text", s(txt(other)))]),
            },
            Path(x) => J::Obj(vec![("k", s("path")), ("line", ln), ("text", s(txt(x).replace(' ', "")))]),
            Field(x) => J::Obj(vec![
                ("k", s("field")),
                ("line", ln),
                ("base", self.expr(&x.base)),
                ("member", s(txt(&x.member))),
                ("text", s(txt(x).replace(' ', ""))),
            ]),
            Reference(x) => J::Obj(vec![("k", s("ref")), ("line", ln), ("expr", self.expr(&x.expr))]),
            Unary(x) => J::Obj(vec![("k", s("unary")), ("line", ln), ("op", s(txt(&x.op))), ("expr", self.expr(&x.expr))]),
            Binary(x) => J::Obj(vec![
                ("k", s("binary")),
                ("line", ln),
                ("op", s(txt(&x.op))),
                ("l", self.expr(&x.left)),
                ("r", self.expr(&x.right)),
                ("text", s(txt(x))),
            ]),
            Assign(x) => J::Obj(vec![
                ("k", s("assign")),
                ("line", ln),
                ("l", self.expr(&x.left)),
                ("r", self.expr(&x.right)),
            ]),
            Paren(x) => self.expr(&x.expr),
            Group(x) => self.expr(&x.expr),
            Try(x) => J::Obj(vec![("k", s("try")), ("line", ln), ("expr", self.expr(&x.expr))]),
            Await(x) => J::Obj(vec![("k", s("await")), ("line", ln), ("expr", self.expr(&x.base))]),
            Return(x) => J::Obj(vec![
                ("k", s("return")),
                ("line", ln),
                ("expr", x.expr.as_ref().map(|e| self.expr(e)).unwrap_or(J::Null)),
            ]),
            Break(x) => J::Obj(vec![
                ("k", s("break")),
                ("line", ln),
                ("expr", x.expr.as_ref().map(|e| self.expr(e)).unwrap_or(J::Null)),
            ]),
            Continue(_) => J::Obj(vec![("k", s("continue")), ("line", ln)]),
            Tuple(x) => J::Obj(vec![("k", s("tuple")), ("line", ln), ("elems", self.exprs(x.elems.iter()))]),
            Array(x) => J::Obj(vec![("k", s("array")), ("line", ln), ("elems", self.exprs(x.elems.iter()))]),
            Index(x) => J::Obj(vec![
                ("k", s("index")),
                ("line", ln),
                ("base", self.expr(&x.expr)),
                ("index", self.expr(&x.index)),
                ("text", s(txt(x))),
            ]),
            Range(x) => J::Obj(vec![
                ("k", s("range")),
                ("line", ln),
                ("start", x.start.as_ref().map(|e| self.expr(e)).unwrap_or(J::Null)),
                ("end", x.end.as_ref().map(|e| self.expr(e)).unwrap_or(J::Null)),
                ("text", s(txt(x))),
            ]),
            Cast(x) => J::Obj(vec![("k", s("cast")), ("line", ln), ("expr", self.expr(&x.expr)), ("ty", s(txt(&x.ty)))]),
            Repeat(x) => J::Obj(vec![("k", s("repeat")), ("line", ln), ("expr", self.expr(&x.expr)), ("len", s(txt(&x.len)))]),
            other => J::Obj(vec![("k", s("other")), ("line", ln), ("text", s(txt(other)))]),
        }
    }
}

fn collect_pat_lits(p: &syn::Pat, out: &mut Vec<String>) {
    match p {
        syn::Pat::Lit(l) => {
            if let syn::Lit::Str(x) = &l.lit {
                out.push(x.value());
            } else if let syn::Lit::ByteStr(x) = &l.lit {
                out.push(String::from_utf8_lossy(&x.value()).to_string());
            }
        }
        syn::Pat::Or(o) => {
            for c in &o.cases {
                collect_pat_lits(c, out);
            }
        }
        syn::Pat::Paren(x) => collect_pat_lits(&x.pat, out),
        syn::Pat::Reference(x) => collect_pat_lits(&x.pat, out),
        syn::Pat::Tuple(x) => {
            for c in &x.elems {
                collect_pat_lits(c, out);
            }
        }
        syn::Pat::TupleStruct(x) => {
            for c in &x.elems {
                collect_pat_lits(c, out);
            }
        }
        _ => {}
    }
}

// ---------------------------------------------------------------------------------------------
// items

fn attrs(a: &[syn::Attribute]) -> J {
    J::Arr(
        a.iter()
            .filter(|x| !x.path().is_ident("doc"))
            .map(|x| s(txt(&x.meta).replace(" :: ", "::")))
            .collect(),
    )
}

fn docs(a: &[syn::Attribute]) -> J {
    let mut v = Vec::new();
    for x in a {
        if x.path().is_ident("doc") {
            if let syn::Meta::NameValue(nv) = &x.meta {
                if let syn::Expr::Lit(l) = &nv.value {
                    if let syn::Lit::Str(st) = &l.lit {
                        v.push(s(st.value()));
                    }
                }
            }
        }
    }
    if v.is_empty() {
        J::Null
    } else {
        J::Arr(v)
    }
}

fn is_cfg_test(a: &[syn::Attribute]) -> bool {
    a.iter().any(|x| {
        let t = txt(&x.meta);
        (x.path().is_ident("cfg") && t.contains("test")) || x.path().is_ident("test") || t.ends_with(":: test")
    })
}

fn fields(f: &syn::Fields) -> J {
    J::Arr(
        f.iter()
            .enumerate()
            .map(|(i, fd)| {
                J::Obj(vec![
                    ("name", s(fd.ident.as_ref().map(|x| x.to_string()).unwrap_or_else(|| i.to_string()))),
                    ("ty", s(txt(&fd.ty))),
                    ("attrs", attrs(&fd.attrs)),
                    ("docs", docs(&fd.attrs)),
                    ("line", line(fd.span())),
                ])
            })
            .collect(),
    )
}

fn fn_node(
    name: String,
    sig: &syn::Signature,
    a: &[syn::Attribute],
    body: Option<&syn::Block>,
    sp: Span,
    modpath: &str,
    self_ty: Option<String>,
    trait_: Option<String>,
    cx: &mut Cx,
) -> J {
    let mut f = vec![
        ("k", s("fn")),
        ("name", s(name)),
        ("mod", s(modpath)),
        ("line", J::Num(sp.start().line as i64)),
        ("end", J::Num(sp.end().line as i64)),
        ("sig", s(txt(sig))),
        ("attrs", attrs(a)),
        ("test", J::Bool(is_cfg_test(a))),
        ("params", J::Arr(sig.inputs.iter().map(|p| s(txt(p))).collect())),
    ];
    if let Some(t) = self_ty {
        f.push(("self_ty", s(t)));
    }
    if let Some(t) = trait_ {
        f.push(("trait", s(t)));
    }
    if let Some(b) = body {
        f.push(("body", cx.block(b)));
    }
    J::Obj(f)
}

fn item(it: &syn::Item, modpath: &str, cx: &mut Cx, out: &mut Vec<J>) {
    match it {
        syn::Item::Fn(x) => out.push(fn_node(
            x.sig.ident.to_string(),
            &x.sig,
            &x.attrs,
            Some(&x.block),
            x.span(),
            modpath,
            None,
            None,
            cx,
        )),
        syn::Item::Impl(x) => {
            let self_ty = txt(&x.self_ty).replace(' ', "");
            let tr = x.trait_.as_ref().map(|(_, p, _)| txt(p).replace(' ', ""));
            let test = is_cfg_test(&x.attrs);
            for ii in &x.items {
                match ii {
                    syn::ImplItem::Fn(m) => {
                        let mut n = fn_node(
                            m.sig.ident.to_string(),
                            &m.sig,
                            &m.attrs,
                            Some(&m.block),
                            m.span(),
                            modpath,
                            Some(self_ty.clone()),
                            tr.clone(),
                            cx,
                        );
                        if test {
                            if let J::Obj(f) = &mut n {
                                f.push(("impl_test", J::Bool(true)));
                            }
                        }
                        out.push(n);
                    }
                    syn::ImplItem::Const(c) => out.push(J::Obj(vec![
                        ("k", s("const")),
                        ("name", s(c.ident.to_string())),
                        ("mod", s(modpath)),
                        ("self_ty", s(self_ty.clone())),
                        ("trait", tr.clone().map(s).unwrap_or(J::Null)),
                        ("line", line(c.span())),
                        ("ty", s(txt(&c.ty))),
                        ("expr", cx.expr(&c.expr)),
                    ])),
                    _ => {}
                }
            }
            out.push(J::Obj(vec![
                ("k", s("impl")),
                ("mod", s(modpath)),
                ("self_ty", s(self_ty)),
                ("trait", tr.map(s).unwrap_or(J::Null)),
                ("generics", s(txt(&x.generics))),
                ("where", s(txt(&x.generics.where_clause))),
                ("attrs", attrs(&x.attrs)),
                ("line", line(x.span())),
            ]));
        }
        syn::Item::Trait(x) => {
            for ti in &x.items {
                if let syn::TraitItem::Fn(m) = ti {
                    out.push(fn_node(
                        m.sig.ident.to_string(),
                        &m.sig,
                        &m.attrs,
                        m.default.as_ref(),
                        m.span(),
                        modpath,
                        None,
                        Some(format!("trait:{}", x.ident)),
                        cx,
                    ));
                }
            }
            out.push(J::Obj(vec![
                ("k", s("trait")),
                ("name", s(x.ident.to_string())),
                ("mod", s(modpath)),
                ("attrs", attrs(&x.attrs)),
                ("line", line(x.span())),
            ]));
        }
        syn::Item::Struct(x) => out.push(J::Obj(vec![
            ("k", s("struct")),
            ("name", s(x.ident.to_string())),
            ("mod", s(modpath)),
            ("generics", s(txt(&x.generics))),
            ("attrs", attrs(&x.attrs)),
            ("docs", docs(&x.attrs)),
            ("line", line(x.span())),
            ("fields", fields(&x.fields)),
            ("test", J::Bool(is_cfg_test(&x.attrs))),
        ])),
        syn::Item::Enum(x) => {
            let vars: Vec<J> = x
                .variants
                .iter()
                .map(|v| {
                    J::Obj(vec![
                        ("name", s(v.ident.to_string())),
                        ("attrs", attrs(&v.attrs)),
                        ("docs", docs(&v.attrs)),
                        ("line", line(v.span())),
                        (
                            "shape",
                            s(match &v.fields {
                                syn::Fields::Unit => "unit",
                                syn::Fields::Named(_) => "named",
                                syn::Fields::Unnamed(_) => "tuple",
                            }),
                        ),
                        ("fields", fields(&v.fields)),
                    ])
                })
                .collect();
            out.push(J::Obj(vec![
                ("k", s("enum")),
                ("name", s(x.ident.to_string())),
                ("mod", s(modpath)),
                ("generics", s(txt(&x.generics))),
                ("attrs", attrs(&x.attrs)),
                ("docs", docs(&x.attrs)),
                ("line", line(x.span())),
                ("variants", J::Arr(vars)),
                ("test", J::Bool(is_cfg_test(&x.attrs))),
            ]));
        }
        syn::Item::Const(x) => out.push(J::Obj(vec![
            ("k", s("const")),
            ("name", s(x.ident.to_string())),
            ("mod", s(modpath)),
            ("line", line(x.span())),
            ("ty", s(txt(&x.ty))),
            ("expr", cx.expr(&x.expr)),
        ])),
        syn::Item::Static(x) => out.push(J::Obj(vec![
            ("k", s("static")),
            ("name", s(x.ident.to_string())),
            ("mod", s(modpath)),
            ("line", line(x.span())),
            ("ty", s(txt(&x.ty))),
            ("expr", cx.expr(&x.expr)),
        ])),
        syn::Item::Mod(x) => {
            let test = is_cfg_test(&x.attrs);
            let mp = if modpath.is_empty() { x.ident.to_string() } else { format!("{}::{}", modpath, x.ident) };
            out.push(J::Obj(vec![
                ("k", s("mod")),
                ("name", s(x.ident.to_string())),
                ("mod", s(modpath)),
                ("inline", J::Bool(x.content.is_some())),
                ("attrs", attrs(&x.attrs)),
                ("test", J::Bool(test)),
                ("line", line(x.span())),
            ]));
            if let Some((_, items)) = &x.content {
                if !test {
                    for i in items {
                        item(i, &mp, cx, out);
                    }
                }
            }
        }
        syn::Item::Macro(x) => {
            let name = x.ident.as_ref().map(|i| i.to_string());
            out.push(J::Obj(vec![
                ("k", s(if name.is_some() { "macro_rules" } else { "item_macro" })),
                ("name", s(name.unwrap_or_else(|| txt(&x.mac.path).replace(' ', "")))),
                ("mod", s(modpath)),
                ("attrs", attrs(&x.attrs)),
                ("line", line(x.span())),
                ("tokens", s(x.mac.tokens.to_string())),
            ]));
        }
        _ => {}
    }
}

fn walk(root: &std::path::Path, rel: &std::path::Path, files: &mut Vec<std::path::PathBuf>) {
    let p = root.join(rel);
    if p.is_dir() {
        let mut es: Vec<_> = std::fs::read_dir(&p).unwrap().filter_map(|e| e.ok()).map(|e| e.file_name()).collect();
        es.sort();
        for e in es {
            if e == "target" || e == ".git" {
                continue;
            }
            walk(root, &rel.join(e), files);
        }
    } else if p.extension().map(|e| e == "rs").unwrap_or(false) {
        files.push(rel.to_path_buf());
    }
}

fn main() {
    let args: Vec<String> = std::env::args().collect();
    if args.len() < 4 {
        eprintln!("usage: zl-tpl <repo-root> <out.json> <rel-dir-or-file>...");
        std::process::exit(2);
    }
    let root = std::path::PathBuf::from(&args[1]);
    let mut files = Vec::new();
    for r in &args[3..] {
        walk(&root, std::path::Path::new(r), &mut files);
    }
    let mut out_files = Vec::new();
    let mut errors = Vec::new();
    for rel in files {
        let src = std::fs::read_to_string(root.join(&rel)).unwrap();
        match syn::parse_file(&src) {
            Ok(f) => {
                let mut items = Vec::new();
                let mut cx = Cx;
                for it in &f.items {
                    item(it, "", &mut cx, &mut items);
                }
                out_files.push(J::Obj(vec![
                    ("file", s(rel.to_string_lossy().to_string())),
                    ("attrs", attrs(&f.attrs)),
                    ("items", J::Arr(items)),
                ]));
            }
            Err(e) => errors.push(s(format!("{}: {}", rel.display(), e))),
        }
    }
    let doc = J::Obj(vec![("files", J::Arr(out_files)), ("errors", J::Arr(errors))]);
    let mut st = String::new();
    doc.write(&mut st);
    std::fs::write(&args[2], st).unwrap();
}
