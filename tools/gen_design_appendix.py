#!/usr/bin/env python3
"""Regenerates 'Appendix C' of DESIGN.md (rules as implemented, with today's instance counts) from evidence/*.json."""
import json, glob, os, re
V = os.path.dirname(os.path.dirname(os.path.abspath(__file__)))
out = ['## Appendix C. Rules as implemented (generated from evidence/*.json by tools/gen_design_appendix.py)', '',
       'Instance counts are those of the last run on the current tree; rule texts are the ones the checks print with a violation.', '']
for f in sorted(glob.glob(os.path.join(V, 'evidence', 'C*.json'))):
    e = json.load(open(f))
    out.append('### %s (level `%s`, tier `%s`: %d rule instances, %d distinct non-trivial)' % (e['property_id'], e['level'], e['tier'], e['coverage']['evaluations'], e['coverage']['distinct_nontrivial']))
    out.append('')
    for rid, r in e['coverage']['rules'].items():
        out.append('* **%s** (%d instance%s%s) — %s' % (rid, r['instances'], '' if r['instances'] == 1 else 's', ', %d violated' % r['violated'] if r['violated'] else '', r['text'] or '(anchor / imported instances)'))
    if e['coverage'].get('known_findings_matched'):
        out.append('* known findings matched: ' + '; '.join('`%s`' % k for k in e['coverage']['known_findings_matched']))
    out.append('')
p = os.path.join(V, 'DESIGN.md')
s = open(p).read()
marker = '## Appendix C.'
if marker in s:
    s = s[:s.index(marker)]
open(p, 'w').write(s.rstrip('\n') + '\n\n' + '\n'.join(out) + '\n')
print('appendix C: %d lines' % len(out))
