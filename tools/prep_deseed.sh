#!/bin/bash
# tools/prep_deseed.sh <Cxx-v>...  - scratch area for a sub-agent that repairs the hidden break of a "refactoring that hides a break" seed,
# giving a behaviour-preserving refactoring of realistic size: /tmp/fixk/<Cxx-v>/{wt,patch.diff,demo.rs,meta.json,TASK.txt,out}
for id in "$@"; do
  d=/tmp/fixk/$id; rm -rf $d; git -C /repo worktree prune; mkdir -p $d/out
  git -C /repo worktree add --detach $d/wt HEAD -q
  cp /verif/seeded/$id/patch.diff /verif/seeded/$id/demo.rs $d/
  python3 -c "
import json; m=json.load(open('/verif/seeded/$id/meta.json')); json.dump({k:m[k] for k in ('summary','needs_to_manifest','demo_path','demo_cmd')}, open('$d/meta.json','w'), indent=1)"
  pid=${id%%-*}; v=${id##*-}
  sed "s/__ID__/$id/g; s/__PID__/$pid/g; s/__V__/$v/g" /verif/tools/deseed_prompt.txt > $d/TASK.txt
done
