#!/bin/sh
# usage: tools/mutant.sh <name> <patch.diff|@rev> <Cxx> [Cxx...]
# Runs the given checks against a scratch worktree of /repo with the patch applied (or at revision @rev).
# The worktree lives outside /repo and /verif and is removed afterwards.
name=$1; patch=$2; shift 2
wt=/tmp/zlmut/$name
rm -rf "$wt"; mkdir -p /tmp/zlmut
case "$patch" in
  @*) git -C /repo worktree add --detach "$wt" "${patch#@}" -q || exit 3 ;;
  *)  git -C /repo worktree add --detach "$wt" HEAD -q || exit 3
      git -C "$wt" apply "$patch" || { echo "PATCH DOES NOT APPLY: $patch"; git -C /repo worktree remove --force "$wt"; exit 3; } ;;
esac
rc=0
for c in "$@"; do
  echo "--- $name: $c"
  ZL_REPO="$wt" /verif/check "$c" --tier ${TIER:-quick} | cut -c1-400
done
git -C /repo worktree remove --force "$wt"
git -C /repo worktree prune
