#!/bin/bash
# tools/prep_seed.sh <Cxx>...  - scratch area for one seeding sub-agent per property: /tmp/seed/<Cxx>/{wt,PROPERTY.txt,out}
# (a detached worktree of /repo HEAD and the text of the property only - nothing from /verif).
textonly=0; if [ "$1" = --text-only ]; then textonly=1; shift; fi
for id in "$@"; do
  d=/tmp/seed/$id; out=$d/PROPERTY.txt
  if [ $textonly = 1 ]; then out=/dev/stdout; else rm -rf $d; git -C /repo worktree prune; mkdir -p $d/out; git -C /repo worktree add --detach $d/wt HEAD -q; sed "s/__ID__/$id/g" /verif/tools/${SEED_PROMPT:-seed_prompt_r6.txt} > $d/TASK.txt; fi
  python3 - "$id" > $out <<'PY'
import json,sys
for l in open('/verif/properties.jsonl'):
    p=json.loads(l)
    if p['id']==sys.argv[1]:
        print('PROPERTY', p['id'], '-', p['title']); print()
        print('Statement:', p['statement']); print()
        print('Quantifier:', p['quantifier']); print()
        print('Why the existing tests cannot settle it:', p['why_tests_cant']); print()
        print('Anchors (where the relevant code lives):')
        print(json.dumps(p['anchors'], indent=1))
PY
done
