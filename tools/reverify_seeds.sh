#!/bin/bash
# tools/reverify_seeds.sh [Cxx-v ...]  - re-confirms seeded changes against /repo HEAD (after fix commits moved it):
# demo passes on the unmodified worktree and fails with the patch. Writes seeded/REVERIFY.json. Scratch worktree under /tmp, removed afterwards.
cd /verif/seeded
seeds=${@:-$(ls -d C*-* )}
export CARGO_NET_OFFLINE=true CARGO_TARGET_DIR=/tmp/zlseed-target
out=/verif/seeded/REVERIFY.json
[ -f $out ] || echo '{}' > $out
for s in $seeds; do
  wt=/tmp/zlseed-wt; rm -rf $wt; git -C /repo worktree prune
  git -C /repo worktree add --detach $wt HEAD -q || continue
  dp=$(python3 -c "import json;print(json.load(open('$s/meta.json'))['demo_path'])")
  dc=$(python3 -c "import json;print(json.load(open('$s/meta.json'))['demo_cmd'])")
  mkdir -p $wt/$(dirname $dp); cp $s/demo.rs $wt/$dp
  ( cd $wt && timeout 1800 bash -c "$dc" ) > /tmp/zlseed-a.log 2>&1; a=$?
  if git -C $wt apply /verif/seeded/$s/patch.diff 2>/dev/null; then ap=true; else ap=false; fi
  ( cd $wt && timeout 1800 bash -c "$dc" ) > /tmp/zlseed-b.log 2>&1; b=$?
  python3 - <<PY
import json
d=json.load(open('$out')); d['$s']={'head':'$(git -C /repo rev-parse --short HEAD)','patch_applies':'$ap'=='true','demo_exit_without':$a,'demo_exit_with':$b,'still_breaks':($a==0 and $b!=0 and '$ap'=='true')}
json.dump(d,open('$out','w'),indent=1,sort_keys=True); print('$s',d['$s'])
PY
  git -C /repo worktree remove --force $wt
done
rm -rf /tmp/zlseed-target /tmp/zlseed-a.log /tmp/zlseed-b.log
