#!/usr/bin/env python3
"""tools/gen_round_table.py <letters>   - markdown table (seed | what it needs to manifest | reported by) for the seeded changes whose variant
letter is in <letters>, from seeded/*/meta.json and selftest/REGRESS.json"""
import sys, os, json, glob, re
V = os.path.dirname(os.path.dirname(os.path.abspath(__file__)))
letters = sys.argv[1]
reg = json.load(open(os.path.join(V, 'selftest', 'REGRESS.json')))
print('| seed | what was changed / what it needs to manifest | reported by |')
print('|---|---|---|')
for d in sorted(glob.glob(os.path.join(V, 'seeded', 'C*-*'))):
    n = os.path.basename(d)
    if n.split('-')[1] not in letters or not os.path.isfile(os.path.join(d, 'meta.json')):
        continue
    m = json.load(open(os.path.join(d, 'meta.json')))
    need = re.sub(r'\s+', ' ', m.get('needs_to_manifest', '')).replace('|', '/')
    need = need if len(need) < 200 else need[:197] + '...'
    r = reg.get('seed:' + n, {})
    rules = sorted({x[0] for p, v in r.items() if isinstance(v, dict) and v.get('st') == 'alarm' for x in v.get('rules', [])})
    print('| %s | %s | %s |' % (n, need, ', '.join(rules) or '**not reported**'))
