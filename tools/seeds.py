#!/usr/bin/env python3
"""tools/seeds.py [-j N] [Cxx[-v] ...]   — checker sensitivity run over the seeded changes in seeded/.

For each seeded/<Cxx>-<v>/patch.diff: scratch worktree of /repo under /tmp/zlmut (removed afterwards), patch applied,
`./check Cxx` run against it with ZL_REPO.  Prints caught / MISSED / error per seed and writes seeded/RESULTS.json.
Nothing is ever applied to /repo itself."""
import sys, os, subprocess, json, glob, concurrent.futures as cf, shutil

V = os.path.dirname(os.path.dirname(os.path.abspath(__file__)))


def run(seed, slot, pids=None):
    pids = pids or [seed.split('-')[0]]
    wt = '/tmp/zlmut/%s' % seed
    subprocess.run(['git', '-C', '/repo', 'worktree', 'remove', '--force', wt], capture_output=True)
    shutil.rmtree(wt, ignore_errors=True)
    os.makedirs('/tmp/zlmut', exist_ok=True)
    r = subprocess.run(['git', '-C', '/repo', 'worktree', 'add', '--detach', wt, 'HEAD', '-q'], capture_output=True, text=True)
    if r.returncode:
        return seed, 'error', 'worktree: ' + r.stderr
    try:
        r = subprocess.run(['git', '-C', wt, 'apply', os.path.join(V, 'seeded', seed, 'patch.diff')], capture_output=True, text=True)
        if r.returncode:
            return seed, 'error', 'patch does not apply: ' + r.stderr
        env = dict(os.environ, ZL_REPO=wt, ZL_TARGET='/tmp/zlmut/target-%d' % slot)
        sts, txts = [], []
        for pid in pids:
            r = subprocess.run([os.path.join(V, 'check'), pid, '--tier', os.environ.get('TIER', 'quick')], env=env, capture_output=True, text=True, cwd=V)
            out = r.stdout + r.stderr
            viol = [l for l in out.splitlines() if l.startswith('VIOLATION') or l.startswith('  rule') or l.startswith('  at ')]
            st = {0: 'MISSED', 1: 'caught'}.get(r.returncode, 'error')
            sts.append(st)
            txts.append(('[%s %s] ' % (pid, st) if len(pids) > 1 else '') + ('\n'.join(viol[:9]) if st != 'error' else out[-1500:]))
        st = 'error' if 'error' in sts else ('caught' if 'caught' in sts else 'MISSED')
        return seed, st, '\n'.join(t for t in txts if t)
    finally:
        subprocess.run(['git', '-C', '/repo', 'worktree', 'remove', '--force', wt], capture_output=True)
        subprocess.run(['git', '-C', '/repo', 'worktree', 'prune'], capture_output=True)


def main():
    args = sys.argv[1:]
    j = 4
    checks = None
    while args and args[0] in ('-j', '-c'):
        if args[0] == '-j':
            j = int(args[1])
        else:
            checks = args[1].split(',')
        args = args[2:]
    seeds = sorted(os.path.basename(d) for d in glob.glob(os.path.join(V, 'seeded', 'C*-*')) if os.path.isdir(d))
    if args:
        seeds = [s for s in seeds if any(s == a or s.startswith(a + '-') for a in args)]
    have = {os.path.basename(f)[:-3].upper() for f in glob.glob(os.path.join(V, 'rules', 'c[0-9][0-9].py'))}
    if not checks:
        seeds = [s for s in seeds if s.split('-')[0] in have]
    res = {}
    with cf.ThreadPoolExecutor(j) as ex:
        futs = {ex.submit(run, s, i % j, checks): s for i, s in enumerate(seeds)}
        # slots: one target dir per worker would need pinning; simple approach: slot = index mod j and a lock per target dir in facts.py
        for f in cf.as_completed(futs):
            seed, st, txt = f.result()
            if checks:
                print('%-8s %s' % (seed, st)); print('   ' + txt.replace('\n', '\n   ')[:1500]); continue
            res[seed] = {'status': st, 'report': txt}
            print('%-8s %s' % (seed, st))
            if txt:
                print('   ' + txt.replace('\n', '\n   ')[:1200])
            sys.stdout.flush()
    rp = os.path.join(V, 'seeded', 'RESULTS.json')
    old = json.load(open(rp)) if os.path.exists(rp) else {}
    old.update(res)
    json.dump(old, open(rp, 'w'), indent=1, sort_keys=True)
    c = sum(1 for v in res.values() if v['status'] == 'caught')
    print('caught %d / %d' % (c, len(res)))


if __name__ == '__main__':
    main()
