#!/bin/bash
# tools/prep_benign.sh <Cxx>...  - scratch area for one benign-refactoring sub-agent per property: /tmp/benign/<Cxx>/{wt,PROPERTY.txt,TASK.txt,out}
for id in "$@"; do
  d=/tmp/benign/$id; rm -rf $d; git -C /repo worktree prune; mkdir -p $d/out
  git -C /repo worktree add --detach $d/wt HEAD -q
  tools/prep_seed.sh --text-only $id > $d/PROPERTY.txt
  sed "s/__ID__/$id/g" /verif/tools/${BENIGN_PROMPT:-benign_prompt_r2.txt} > $d/TASK.txt
done
