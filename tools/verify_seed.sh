#!/bin/bash
# usage: tools/verify_seed.sh <worker-id> <Cxx:variant>...
# Confirms each seeded change independently: demo passes on the unmodified tree, fails with the patch,
# and the whole existing suite passes with the patch.  Results -> /verif/seeded/<Cxx>-<v>/
w=$1; shift
export CARGO_NET_OFFLINE=true
export CARGO_TARGET_DIR=/tmp/zlseed/target-$w
mkdir -p /tmp/zlseed
for item in "$@"; do
  id=${item%%:*}; v=${item##*:}
  src=/tmp/seed/$id/out/$v
  [ -f $src/patch.diff ] || { echo "$id-$v: no deliverable"; continue; }
  wt=/tmp/zlseed/wt-$w
  rm -rf $wt; git -C /repo worktree prune
  git -C /repo worktree add --detach $wt HEAD -q || continue
  demo_path=$(python3 -c "import json;print(json.load(open('$src/meta.json'))['demo_path'])")
  demo_cmd=$(python3 -c "import json;print(json.load(open('$src/meta.json'))['demo_cmd'])")
  mkdir -p $wt/$(dirname $demo_path); cp $src/demo.rs $wt/$demo_path
  out=/verif/seeded/$id-$v; mkdir -p $out
  ( cd $wt && timeout 1800 bash -c "$demo_cmd" ) > $out/demo_without.log 2>&1; r_without=$?
  if git -C $wt apply --check $src/patch.diff 2>/dev/null; then applies=true; git -C $wt apply $src/patch.diff; else applies=false; fi
  ( cd $wt && timeout 1800 bash -c "$demo_cmd" ) > $out/demo_with.log 2>&1; r_with=$?
  rm -f $wt/$demo_path
  ( cd $wt && timeout 2400 cargo test --workspace --no-fail-fast --offline ) > $out/suite_with.log 2>&1; r_suite=$?
  cp $src/patch.diff $src/demo.rs $out/
  tail -c 3000 $out/demo_with.log > $out/demo_with.tail; mv $out/demo_with.tail $out/demo_with.log
  tail -c 1500 $out/demo_without.log > $out/t; mv $out/t $out/demo_without.log
  grep -E "^test result|FAILED|failed" $out/suite_with.log | sort | uniq -c > $out/t; mv $out/t $out/suite_with.log
  python3 - <<PY
import json
m=json.load(open('$src/meta.json'))
m['confirmed_by_me']={'patch_applies': '$applies'=='true', 'demo_exit_without_change': $r_without, 'demo_exit_with_change': $r_with, 'suite_exit_with_change': $r_suite,
  'valid': ('$applies'=='true' and $r_without==0 and $r_with!=0 and $r_suite==0),
  'ran': ['<demo_cmd> on unmodified worktree', 'git apply patch.diff; <demo_cmd>', 'cargo test --workspace --no-fail-fast --offline (with patch, demo removed)']}
json.dump(m,open('$out/meta.json','w'),indent=1)
print('$id-$v', m['confirmed_by_me'])
PY
  git -C /repo worktree remove --force $wt
done
rm -rf $CARGO_TARGET_DIR
