#!/usr/bin/env python3
"""tools/benign.py [-j N] [-c C01,C02,...] <patch.diff>...   — false-alarm probe.

Each patch is a behaviour-preserving change of /repo.  It is applied in a scratch worktree under /tmp/zlmut (removed
afterwards) and ALL checks (or those given with -c) are run against it with ZL_REPO.  Any VIOLATION is printed: it is
either a false alarm of the rule (to be corrected) or the patch is not behaviour-preserving after all (to be read).
Nothing is ever applied to /repo itself."""
import sys, os, subprocess, json, concurrent.futures as cf, shutil, hashlib

V = os.path.dirname(os.path.dirname(os.path.abspath(__file__)))
ALL = ['C%02d' % i for i in range(1, 21)]


def run(patch, slot, checks):
    name = hashlib.sha1(os.path.abspath(patch).encode()).hexdigest()[:10]
    wt = '/tmp/zlmut/b-%s' % name
    subprocess.run(['git', '-C', '/repo', 'worktree', 'remove', '--force', wt], capture_output=True)
    shutil.rmtree(wt, ignore_errors=True)
    os.makedirs('/tmp/zlmut', exist_ok=True)
    r = subprocess.run(['git', '-C', '/repo', 'worktree', 'add', '--detach', wt, 'HEAD', '-q'], capture_output=True, text=True)
    if r.returncode:
        return patch, {'error': 'worktree: ' + r.stderr}
    res = {}
    try:
        r = subprocess.run(['git', '-C', wt, 'apply', os.path.abspath(patch)], capture_output=True, text=True)
        if r.returncode:
            return patch, {'error': 'patch does not apply: ' + r.stderr}
        env = dict(os.environ, ZL_REPO=wt, ZL_TARGET='/tmp/zlmut/target-%d' % slot)
        for pid in checks:
            r = subprocess.run([os.path.join(V, 'check'), pid, '--tier', 'quick'], env=env, capture_output=True, text=True, cwd=V)
            out = r.stdout + r.stderr
            if r.returncode == 0:
                continue
            if r.returncode == 1:
                lines = out.splitlines()
                keep = []
                for i, l in enumerate(lines):
                    if l.startswith('VIOLATION') or l.startswith('  rule') or l.startswith('  at ') or l.startswith('  detail') or l.startswith('  key'):
                        keep.append(l[:600])
                res[pid] = '\n'.join(keep[:40])
            else:
                res[pid] = 'CHECK-ERROR ' + out[-1500:]
        return patch, res
    finally:
        subprocess.run(['git', '-C', '/repo', 'worktree', 'remove', '--force', wt], capture_output=True)
        subprocess.run(['git', '-C', '/repo', 'worktree', 'prune'], capture_output=True)


def main():
    args = sys.argv[1:]
    j, checks = 3, ALL
    while args and args[0] in ('-j', '-c'):
        if args[0] == '-j':
            j = int(args[1])
        else:
            checks = args[1].split(',')
        args = args[2:]
    quiet = 0
    with cf.ThreadPoolExecutor(j) as ex:
        futs = [ex.submit(run, p, i % j, checks) for i, p in enumerate(args)]
        for f in cf.as_completed(futs):
            patch, res = f.result()
            if not res:
                quiet += 1
                print('%-60s silent' % patch)
            else:
                print('%-60s ALARM in %s' % (patch, ','.join(sorted(res))))
                for k in sorted(res):
                    print('   [%s]\n      %s' % (k, res[k].replace('\n', '\n      ')))
            sys.stdout.flush()
    print('silent %d / %d' % (quiet, len(args)))


if __name__ == '__main__':
    main()
