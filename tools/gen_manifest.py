#!/usr/bin/env python3
"""Regenerates MANIFEST.json from the rule modules present in rules/ (one check per property that
has a module) - keeps the manifest in step with what is actually built."""
import json, os, sys, importlib

HERE = os.path.dirname(os.path.dirname(os.path.abspath(__file__)))
sys.path.insert(0, os.path.join(HERE, 'rules'))

NOTE = ('A check exiting 0 means "every structural obligation of this property holds on the current tree", not "the behaviour '
        'was verified". Trusted base: rustc front end / MIR construction (nightly 1.97), cargo feature resolution, the '
        'semantics of the external crates the obligations mention (serde, serde_json, futures, tokio, async-broadcast).')

TECH = {
    'C01': 'MIR dataflow: def-chain slicing + guard dominance on the receive path',
    'C02': 'MIR path rules (must-pass-through / who-may-write) on the send path',
    'C03': 'const-evaluated table comparison + call-graph allow-set + MIR path rules on the serializer',
    'C04': 'serde-shape analysis of the decode target (type-checked ADTs + attributes) + MIR arm mapping',
    'C05': 'table agreement (MIR literals / AST attributes) between encoder, decoder and derive templates',
    'C06': 'MIR guard dominance / dataflow on the chain and its reply stream + compile-fail witnesses',
    'C07': 'coroutine-state lint: saved locals and pre-suspension writes on the receive path (MIR)',
    'C08': 'MIR guard dominance + path rules in the server call handler',
    'C09': 'early-exit classification + index dataflow in the server loop (MIR)',
    'C10': 'ownership-flow (move) analysis of connections in the server loop (MIR)',
    'C11': 'unsafe lifetime-laundering detection + escape analysis (MIR)',
    'C12': 'sibling agreement of code-generator templates (syn AST) + field-use analysis',
    'C13': 'bounds/guard analysis of slice sites + error-discipline lint over the parser (MIR)',
    'C14': 'format-template analysis of Display impls (AST) vs parser literal set (MIR)',
    'C15': 'conversion/rename pairing in the code generator (AST dataflow) + keyword-table comparison',
    'C16': 'trait-impl table extraction (MIR consts) + derive template analysis (AST)',
    'C17': 'guard dominance of buffer growth by the limit test + const evaluation (MIR)',
    'C18': 'index dataflow in the server loop and the select helper (MIR)',
    'C19': 'coroutine-state lint on transport writes + who-may-write on the id counter (MIR)',
    'C20': 'constant-argument and path rules on the notified-state streams, sibling agreement (MIR)',
}
LEVEL = {k: 'other' for k in TECH}
LEVEL.update({'C02': 'proof', 'C07': 'proof', 'C17': 'proof', 'C18': 'proof'})
LEVEL_TEXT = {
    'other': 'static rules over the compiler\'s MIR / the syntax tree decide the structural necessary conditions of the property '
             'listed in DESIGN.md for every path, suspension point, table entry and sibling generator; the runtime-value part of '
             'the property is stated as not decided',
    'proof': 'each listed structural obligation is discharged for all paths of the analysed functions (dominator / '
             'must-pass-through / who-may-write arguments over MIR); together they entail the boundedness / framing / '
             'cancel-safety / fairness lemma stated in DESIGN.md relative to the trusted base',
}


def main():
    props = [json.loads(l) for l in open(os.path.join(HERE, 'properties.jsonl'))]
    checks, na = [], []
    for p in props:
        pid = p['id']
        if os.path.exists(os.path.join(HERE, 'rules', pid.lower() + '.py')):
            mod = importlib.import_module(pid.lower())
            level = mod.META['level']
            checks.append({
                'property_id': pid,
                'quick_cmd': './check %s --tier quick' % pid,
                'thorough_cmd': './check %s --tier thorough' % pid,
                'evidence_file': '/verif/evidence/%s.json' % pid,
                'replay_cmd_template': './check %s --replay {path}' % pid,
                'engine': 'zl-static',
                'level_claimed': {'category': level, 'text': LEVEL_TEXT[level], 'design_ref': 'DESIGN.md section 5, %s' % pid},
                'level_note': NOTE,
                'technique': 'static analysis: ' + TECH[pid],
            })
        else:
            na.append({'property_id': pid, 'reason': 'static rules for this property are designed (DESIGN.md section 5) but not built yet; '
                                                     'not claimed until the check exists'})
    man = {
        'version': 1,
        'setup_cmd': './setup.sh',
        'hooks': {
            'guard': 'zlink_verif',
            'enable': 'none needed: the analysis reads the unmodified sources through a rustc driver; no hooks were added to /repo',
            'baseline_off_cmd': 'cd /repo && cargo test --workspace --no-fail-fast --offline',
            'source_commits': [],
            'add_only': True,
        },
        'engines': [
            {'name': 'zl-static', 'path': '/verif/check',
             'serves_properties': [c['property_id'] for c in checks],
             'kind_free_text': 'custom static analyser: rustc_private driver (drv/) dumping type-checked MIR facts of every '
                               'workspace crate, syn-based template extractor (tpl/), python rule engine (rules/) with '
                               'dominators, control dependence, slices, coroutine-state and escape analyses; compile-fail witnesses'},
        ],
        'checks': checks,
        'not_applicable': na,
        'notes': 'Family of technique: static analysis only. Every verdict is computed from /repo\'s current working tree '
                 '(content-hashed; facts rebuilt on any change). Exit 2 + CHECK-ERROR means the checker could not produce its facts.',
    }
    with open(os.path.join(HERE, 'MANIFEST.json'), 'w') as f:
        json.dump(man, f, indent=1)
    print('MANIFEST.json: %d checks, %d not_applicable' % (len(checks), len(na)))


if __name__ == '__main__':
    main()
