#!/usr/bin/env python3
"""Regenerates MANIFEST.json from the rule modules present in rules/ (one check per property that
has a module) - keeps the manifest in step with what is actually built."""
import json, os, sys, importlib

HERE = os.path.dirname(os.path.dirname(os.path.abspath(__file__)))
sys.path.insert(0, os.path.join(HERE, 'rules'))

NOTE = ('A check exiting 0 means "every structural obligation of this property holds on the current tree", not "the behaviour '
        'was verified". Trusted base: rustc front end / MIR construction (nightly 1.97), cargo feature resolution, the '
        'semantics of the external crates the obligations mention (serde, serde_json, futures, tokio, async-broadcast).')

TECH = {
    'C01': 'MIR dataflow over the helper-inlined normal form: def-chain slicing (terminator search on every chain), guard dominance and post-dominance on the receive path, who-may-construct on the end-of-stream error',
    'C02': 'MIR path rules (must-pass-through / at-most-once / who-may-write) on the send path',
    'C03': 'translation validation of the ported serializer against the serde_json source (method-by-method emission skeletons) + const-evaluated escape table + MIR origin tracing of raw fragments',
    'C04': 'serde-shape analysis of the decode target (type-checked ADT + attributes), bypass search over decode instantiations, MIR arm mapping',
    'C05': 'syntax-tree table agreement between encoder, decoder and derive templates (flag key/field pairing, aligned zips, tagged unit variants)',
    'C06': 'symbolic accounting (owed replies as a linear form) + path-sensitive exploration + guard dominance in the reply stream (MIR)',
    'C07': 'coroutine-state lint: locals saved across suspension points, pre-suspension stores, single awaited leaf (MIR + coroutine witnesses)',
    'C08': 'MIR guard dominance + must-pass-through in the server call handler (private async helpers expanded in place); imported structural clauses of the layers below (inbound / outbound framing, cancel-safety, call-envelope flags, select)',
    'C09': 'early-exit classification, path-sensitive (flag-following) must-pass-through, index/list pairing, lifetime-laundering escape analysis (MIR)',
    'C10': 'ownership-flow (move provenance) + path-sensitive must-pass-through in the server loop (MIR)',
    'C11': 'lifetime-laundering detection + typed taint/escape analysis + who-may-write on the receive buffer (MIR); free-lifetime rule on the impl headers of the escaping type (syntax tree)',
    'C12': 'sibling agreement of the three proxy generators (syn AST, quote fragments spliced): shared parser/emitter, destructive-attribute rule, evaluated emitter truth table; imported clauses of outbound framing, reply classification and chain accounting',
    'C13': 'production extraction from the phrase-level parser (syntax tree -> right-linear equations -> regular expressions) with regular-language inclusion between the required minimum and the Varlink grammar + guard-based bounds engine (index/range sites, inductive cursors) + error-discipline, loop-progress and conservation rules over the parser MIR + abstract interpretation of the name scanners and of the white-space / comment helpers (byte-class / window-relative position domain) in lock-step with the DFA of the grammar rule',
    'C14': 'format-template analysis of Display impls (AST) vs parser literal/constructor tables (AST + MIR call graph) + imported scanner-vs-grammar abstract interpretation (names, white space, comments)',
    'C15': 'conversion/rename pairing keyed by resolved accessors (MIR) on emitter syntax, type-table and keyword-table comparison, Ident-unraw lint (MIR)',
    'C16': 'trait-impl table extraction (MIR const bodies + promoted constants) vs mapping table; derive template and declaration-order rules (AST)',
    'C17': 'guard dominance of buffer growth by the limit test + const evaluation (MIR)',
    'C18': 'symbolic index expressions checked as a congruence (start + i) mod n; winner/start dataflow in the server loop (MIR)',
    'C19': 'coroutine-state lint + write-until-done dataflow on transport writes, who-may-write on the id counter (MIR)',
    'C20': 'constant-argument and path rules on the notified-state streams, per crate, with sibling agreement (MIR)',
}
LEVEL = {k: 'other' for k in TECH}
LEVEL.update({'C02': 'proof', 'C07': 'proof', 'C17': 'proof', 'C18': 'proof'})
LEVEL_TEXT = {
    'other': 'static rules over the compiler\'s MIR / the syntax tree decide the structural necessary conditions of the property '
             'listed in DESIGN.md for every path, suspension point, table entry and sibling generator; the runtime-value part of '
             'the property is stated as not decided',
    'proof': 'each listed structural obligation is discharged for all paths of the analysed functions (dominator / '
             'must-pass-through / who-may-write arguments over MIR); together they entail the boundedness / framing / '
             'cancel-safety / fairness lemma stated in DESIGN.md relative to the trusted base',
}


def main():
    props = [json.loads(l) for l in open(os.path.join(HERE, 'properties.jsonl'))]
    checks, na = [], []
    for p in props:
        pid = p['id']
        if os.path.exists(os.path.join(HERE, 'rules', pid.lower() + '.py')):
            mod = importlib.import_module(pid.lower())
            level = mod.META['level']
            checks.append({
                'property_id': pid,
                'quick_cmd': './check %s --tier quick' % pid,
                'thorough_cmd': './check %s --tier thorough' % pid,
                'evidence_file': '/verif/evidence/%s.json' % pid,
                'replay_cmd_template': './check %s --replay {path}' % pid,
                'engine': 'zl-static',
                'level_claimed': {'category': level, 'text': LEVEL_TEXT[level], 'design_ref': 'DESIGN.md section 5, %s' % pid},
                'level_note': NOTE,
                'technique': 'static analysis: ' + TECH[pid],
            })
        else:
            na.append({'property_id': pid, 'reason': 'static rules for this property are designed (DESIGN.md section 5) but not built yet; '
                                                     'not claimed until the check exists'})
    man = {
        'version': 1,
        'setup_cmd': './setup.sh',
        'hooks': {
            'guard': 'zlink_verif',
            'enable': 'none needed: the analysis reads the unmodified sources through a rustc driver; no hooks were added to /repo',
            'baseline_off_cmd': 'cd /repo && cargo test --workspace --no-fail-fast --offline',
            'source_commits': [],
            'add_only': True,
        },
        'engines': [
            {'name': 'zl-static', 'path': '/verif/check',
             'serves_properties': [c['property_id'] for c in checks],
             'kind_free_text': 'custom static analyser: rustc_private driver (drv/) dumping type-checked MIR facts of every '
                               'workspace crate, syn-based template extractor (tpl/), python rule engine (rules/) with '
                               'dominators, control dependence, slices, coroutine-state and escape analyses; compile-fail witnesses'},
        ],
        'checks': checks,
        'not_applicable': na,
        'notes': 'Family of technique: static analysis only. Every verdict is computed from /repo\'s current working tree '
                 '(content-hashed; facts rebuilt on any change). Exit 2 + CHECK-ERROR means the checker could not produce its facts.',
    }
    with open(os.path.join(HERE, 'MANIFEST.json'), 'w') as f:
        json.dump(man, f, indent=1)
    print('MANIFEST.json: %d checks, %d not_applicable' % (len(checks), len(na)))


if __name__ == '__main__':
    main()
