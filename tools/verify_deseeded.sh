#!/bin/bash
# usage: tools/verify_deseeded.sh <worker-id> <Cxx-k>...
# Confirms a de-seeded refactoring (selftest/benign/r2k/<id>.diff) independently: the demonstration of the seeded change it came from passes with
# it, and the whole existing suite passes with it.  Result -> selftest/benign/r2k/<id>.json ("confirmed_by_me").
w=$1; shift
export CARGO_NET_OFFLINE=true CARGO_TARGET_DIR=/tmp/zlseed/target-b$w
mkdir -p /tmp/zlseed
for id in "$@"; do
  wt=/tmp/zlseed/wt-b$w; rm -rf $wt; git -C /repo worktree prune
  git -C /repo worktree add --detach $wt HEAD -q || continue
  seed=/verif/seeded/$id
  dp=$(python3 -c "import json;print(json.load(open('$seed/meta.json'))['demo_path'])")
  dc=$(python3 -c "import json;print(json.load(open('$seed/meta.json'))['demo_cmd'])")
  git -C $wt apply /verif/selftest/benign/r2k/$id.diff; ap=$?
  mkdir -p $wt/$(dirname $dp); cp $seed/demo.rs $wt/$dp
  ( cd $wt && timeout 1800 bash -c "$dc" ) > /tmp/zlseed/b$w-demo.log 2>&1; rd=$?
  rm -f $wt/$dp
  ( cd $wt && timeout 2400 cargo test --workspace --no-fail-fast --offline ) > /tmp/zlseed/b$w-suite.log 2>&1; rs=$?
  python3 - <<PY
import json
f='/verif/selftest/benign/r2k/$id.json'; m=json.load(open(f))
m['confirmed_by_me']={'head':'$(git -C /repo rev-parse --short HEAD)','patch_applies':$ap==0,'seed_demo_exit_with_refactoring':$rd,'suite_exit_with_refactoring':$rs,'valid':($ap==0 and $rd==0 and $rs==0)}
json.dump(m,open(f,'w'),indent=1); print('$id',m['confirmed_by_me'])
PY
  git -C /repo worktree remove --force $wt
done
rm -rf $CARGO_TARGET_DIR
