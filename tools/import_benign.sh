#!/bin/bash
# tools/import_benign.sh <round-dir> <letters> <Cxx>...  - copies the deliverables of a benign-refactoring sub-agent into selftest/benign/<round-dir>/
rd=$1; letters=$2; shift 2
mkdir -p /verif/selftest/benign/$rd
for id in "$@"; do
  for v in $letters; do
    src=/tmp/benign/$id/out/$v
    [ -f $src/patch.diff ] || { echo "$id-$v: no deliverable"; continue; }
    git -C /repo apply --check $src/patch.diff 2>/dev/null || { echo "$id-$v: patch does not apply to /repo HEAD"; continue; }
    cp $src/patch.diff /verif/selftest/benign/$rd/$id-$v.diff
    cp $src/meta.json /verif/selftest/benign/$rd/$id-$v.json
    echo "$id-$v imported"
  done
done
