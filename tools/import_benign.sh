#!/bin/bash
# tools/import_benign.sh <Cxx>...  - copies the deliverables of a benign-refactoring sub-agent into selftest/benign/r1/
mkdir -p /verif/selftest/benign/r1
for id in "$@"; do
  for v in p q r s; do
    src=/tmp/benign/$id/out/$v
    [ -f $src/patch.diff ] || { echo "$id-$v: no deliverable"; continue; }
    git -C /repo apply --check $src/patch.diff 2>/dev/null || { echo "$id-$v: patch does not apply to /repo HEAD"; continue; }
    cp $src/patch.diff /verif/selftest/benign/r1/$id-$v.diff
    cp $src/meta.json /verif/selftest/benign/r1/$id-$v.json
    echo "$id-$v imported"
  done
done
