#!/usr/bin/env python3
"""tools/regress.py [-j N] [--only seeds|mutants|benign] [--match SUBSTR] [--checks C01,C02]

Regression of the checker itself, both ways, over every variant of /repo kept in /verif:

  seeded/<Cxx>-<v>/patch.diff      breaking change  -> ./check Cxx must report a violation
  selftest/mutants/<Cxx>-*.diff    breaking change  -> ./check Cxx must report a violation
  selftest/benign/**/*.diff        behaviour-preserving change -> ALL 20 checks must stay silent (exit 0)

Each variant is applied in a scratch worktree under /tmp/zlmut (removed afterwards); the facts of a variant are cached by
tree hash, so a re-run after a rule change costs only the rule evaluation.  Prints one line per variant and a summary;
writes selftest/REGRESS.json.  Nothing is ever applied to /repo itself."""
import sys, os, subprocess, json, glob, concurrent.futures as cf, shutil, hashlib, threading, re

V = os.path.dirname(os.path.dirname(os.path.abspath(__file__)))
ALL = ['C%02d' % i for i in range(1, 21)]
_slots = None
_slot_lock = threading.Lock()


def take_slot():
    with _slot_lock:
        return _slots.pop()


def give_slot(s):
    with _slot_lock:
        _slots.append(s)


def run(name, patch, checks):
    slot = take_slot()
    wt = '/tmp/zlmut/r-%s' % hashlib.sha1(name.encode()).hexdigest()[:10]
    try:
        subprocess.run(['git', '-C', '/repo', 'worktree', 'remove', '--force', wt], capture_output=True)
        shutil.rmtree(wt, ignore_errors=True)
        os.makedirs('/tmp/zlmut', exist_ok=True)
        r = subprocess.run(['git', '-C', '/repo', 'worktree', 'add', '--detach', wt, 'HEAD', '-q'], capture_output=True, text=True)
        if r.returncode:
            return name, {'error': 'worktree: ' + r.stderr}
        r = subprocess.run(['git', '-C', wt, 'apply', patch], capture_output=True, text=True)
        if r.returncode:
            return name, {'error': 'patch does not apply: ' + r.stderr[:300]}
        env = dict(os.environ, ZL_REPO=wt, ZL_TARGET='/tmp/zlmut/target-%d' % slot)
        res = {}
        for pid in checks:
            r = subprocess.run([os.path.join(V, 'check'), pid, '--tier', 'quick'], env=env, capture_output=True, text=True, cwd=V)
            out = r.stdout + r.stderr
            if r.returncode == 0:
                res[pid] = {'st': 'silent'}
            elif r.returncode == 1:
                lines = out.splitlines()
                rules = []
                for i, l in enumerate(lines):
                    if l.startswith('  rule '):
                        rid = l.split()[1].rstrip(':')
                        at = lines[i + 1].strip()[:300] if i + 1 < len(lines) else ''
                        rules.append((rid, at))
                res[pid] = {'st': 'alarm', 'rules': rules}
            else:
                res[pid] = {'st': 'error', 'out': out[-800:]}
        return name, res
    finally:
        subprocess.run(['git', '-C', '/repo', 'worktree', 'remove', '--force', wt], capture_output=True)
        give_slot(slot)


def main():
    global _slots
    args = sys.argv[1:]
    j, only, match, checks_override, base = 4, None, None, None, 0
    while args:
        a = args.pop(0)
        if a == '-j':
            j = int(args.pop(0))
        elif a == '--only':
            only = args.pop(0)
        elif a == '--match':
            match = args.pop(0)
        elif a == '--slot-base':
            base = int(args.pop(0))
        elif a == '--checks':
            checks_override = args.pop(0).split(',')
    _slots = list(range(base, base + j))
    jobs = []
    if only in (None, 'seeds'):
        for d in sorted(glob.glob(os.path.join(V, 'seeded', 'C*-*'))):
            if os.path.isfile(os.path.join(d, 'patch.diff')):
                n = os.path.basename(d)
                jobs.append(('seed', n, os.path.join(d, 'patch.diff'), [n.split('-')[0]]))
    if only in (None, 'mutants'):
        for f in sorted(glob.glob(os.path.join(V, 'selftest', 'mutants', 'C*.diff'))):
            n = os.path.basename(f)[:-5]
            jobs.append(('mutant', n, f, [n.split('-')[0]]))
    if only in (None, 'benign'):
        for f in sorted(glob.glob(os.path.join(V, 'selftest', 'benign', '**', '*.diff'), recursive=True)):
            n = os.path.relpath(f, os.path.join(V, 'selftest', 'benign'))[:-5]
            jobs.append(('benign', n, f, ALL))
    if match:
        jobs = [x for x in jobs if re.search(match, x[1])]
    if checks_override:
        jobs = [(k, n, p, checks_override) for k, n, p, c in jobs]
    results = {}
    with cf.ThreadPoolExecutor(j) as ex:
        futs = {ex.submit(run, k + ':' + n, p, c): (k, n) for k, n, p, c in jobs}
        for f in cf.as_completed(futs):
            k, n = futs[f]
            name, res = f.result()
            results[name] = res
            if 'error' in res:
                print('%-40s ERROR %s' % (name, res['error']))
            elif k == 'benign':
                al = {p: r for p, r in res.items() if r['st'] != 'silent'}
                if not al:
                    print('%-40s ok (silent)' % name)
                else:
                    print('%-40s FALSE-ALARM %s' % (name, ' '.join('%s[%s]' % (p, ','.join(sorted({x[0] for x in r.get('rules', [])})) or r['st']) for p, r in sorted(al.items()))))
            else:
                caught = [p for p, r in res.items() if r['st'] == 'alarm']
                err = [p for p, r in res.items() if r['st'] == 'error']
                if caught:
                    print('%-40s ok (caught: %s)' % (name, ' '.join('%s[%s]' % (p, ','.join(sorted({x[0] for x in res[p]['rules']}))) for p in caught)))
                elif err:
                    print('%-40s CHECK-ERROR %s' % (name, res[err[0]]['out'][-300:].replace('\n', ' | ')))
                else:
                    print('%-40s MISSED' % name)
            sys.stdout.flush()
    rp = os.path.join(V, 'selftest', 'REGRESS.json')
    old = json.load(open(rp)) if os.path.exists(rp) else {}
    old.update(results)
    json.dump(old, open(rp, 'w'), indent=1, sort_keys=True)
    nb = [n for n in results if n.startswith('benign:')]
    nbad = [n for n in nb if any(r.get('st') != 'silent' for r in results[n].values() if isinstance(r, dict))]
    ns = [n for n in results if not n.startswith('benign:')]
    nmiss = [n for n in ns if 'error' in results[n] or not any(isinstance(r, dict) and r.get('st') == 'alarm' for r in results[n].values())]
    print('breaking variants reported: %d / %d   (not reported: %s)' % (len(ns) - len(nmiss), len(ns), ' '.join(sorted(nmiss)) or '-'))
    print('benign variants silent:     %d / %d   (alarms: %s)' % (len(nb) - len(nbad), len(nb), ' '.join(sorted(nbad)) or '-'))


if __name__ == '__main__':
    main()
